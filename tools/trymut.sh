#!/bin/bash
# usage: trymut.sh <name> <patch-file> <tier> <PROP> [<PROP>...]
# Applies a seeded change to a scratch worktree of /repo (never to /repo itself), runs the given
# checks against it through a shadow driver, prints one verdict line per check, cleans up.
name=$1; patch=$(realpath $2); tier=$3; shift 3
wt=/tmp/mut/$name
mkdir -p /tmp/mut
git -C /repo worktree remove --force $wt >/dev/null 2>&1
git -C /repo worktree add -q --detach $wt HEAD || exit 3
if ! git -C $wt apply $patch 2>/dev/null; then
  if ! (cd $wt && patch -p1 --fuzz=3 -s < $patch); then echo "MUT $name: patch does not apply"; git -C /repo worktree remove --force $wt; exit 3; fi
fi
export NBV_REPO=$wt NBV_SHADOW=/tmp/mut/shadow-$name NBV_EVIDENCE_DIR=/tmp/mut/ev-$name
for p in "$@"; do
  out=$(cd /verif && python3 check.py run $p --tier $tier 2>/tmp/mut/err-$name-$p.txt)
  rc=$?
  nv=$(echo "$out" | grep -c '^VIOLATION')
  first=$(echo "$out" | grep -A1 '^VIOLATION' | sed -n 2p | cut -c1-220)
  inc=$(echo "$out" | grep '^INCONCLUSIVE' | head -1 | cut -c1-200)
  echo "MUT $name check=$p tier=$tier rc=$rc violations=$nv $first $inc"
done
git -C /repo worktree remove --force $wt
rm -rf /tmp/mut/shadow-$name /tmp/mut/shadow-$name-c16 /tmp/mut/shadow-$name-c16-target /tmp/mut/ev-$name
