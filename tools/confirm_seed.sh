#!/bin/bash
# usage: confirm_seed.sh <seed-id> [cargo test extra flags for the demo, e.g. "--features rand" or "--release"]
# Confirms a seeded change independently: (1) demo passes on the unchanged tree, (2) with the
# patch the existing suite still passes, (3) with the patch the demo fails.  Scratch worktree only.
id=$1; shift; flags="$@"
d=/verif/seeded/$id
wt=/tmp/confirm/$id
mkdir -p /tmp/confirm
git -C /repo worktree remove --force $wt >/dev/null 2>&1
git -C /repo worktree add -q --detach $wt HEAD || exit 3
cp /repo/Cargo.lock $wt/ 2>/dev/null
cp $d/demo.rs $wt/tests/demo_seed.rs
cd $wt
clean_demo=FAIL; suite=FAIL; patched_demo=PASS
if RUSTFLAGS="$SEED_RUSTFLAGS" cargo test --offline -j4 --test demo_seed $flags >/tmp/confirm/$id.clean.log 2>&1; then clean_demo=PASS; fi
rm tests/demo_seed.rs
if git apply $d/patch.diff 2>/dev/null || patch -p1 --fuzz=3 -s < $d/patch.diff; then
  if cargo test --offline -j4 >/tmp/confirm/$id.suite.log 2>&1; then suite=PASS; fi
  cp $d/demo.rs tests/demo_seed.rs
  if RUSTFLAGS="$SEED_RUSTFLAGS" cargo test --offline -j4 --test demo_seed $flags >/tmp/confirm/$id.patched.log 2>&1; then patched_demo=PASS; else patched_demo=FAIL; fi
else
  suite=NOAPPLY
fi
cd /
git -C /repo worktree remove --force $wt
echo "CONFIRM $id clean_demo=$clean_demo suite_with_patch=$suite demo_with_patch=$patched_demo flags='$flags'"
