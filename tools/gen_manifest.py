#!/usr/bin/env python3
"""Regenerate /verif/MANIFEST.json from the table below."""
import json, os, subprocess
V = os.path.dirname(os.path.dirname(os.path.abspath(__file__)))

TECH = {
 'C01': 'differential runtime monitor: recorded API calls (all add/sub forms) vs CPython int model over an exhaustive length x carry-chain sweep; coverage probes',
 'C02': 'differential runtime monitor vs CPython int across every multiplication regime (probe-confirmed), debug + release',
 'C03': 'differential runtime monitor + uniqueness-condition monitor on reported (q,r); constructed inputs reach add-back / a0==b0 (probe-confirmed)',
 'C04': 'history monitor: register file driven through mutation sequences, every comparison/hash/export checked against the integer model of the history; canonical-form monitor on all results',
 'C05': 'differential runtime monitor vs pow()/gcd with interval and congruence assertions; Montgomery branch probes; step budget on modinv',
 'C06': 'differential runtime monitor: emitted text/digits vs divmod model, parser vs explicit grammar recogniser, pad_integral model + primitive-twin oracle; std and no_std builds',
 'C07': 'differential runtime monitor vs CPython two\'s-complement int semantics for & | ^ ! << >> bit/set_bit/queries over all shift types',
 'C08': 'differential runtime monitor: range model for integer conversions, exact integer round-half-even model for floats compared as bit patterns',
 'C09': 'differential runtime monitor vs int.to_bytes/from_bytes (inherent + ToBytes/FromBytes incl. native-endian); exhaustive iterator call-sequence enumeration (next/next_back/nth/nth_back/len/size_hint + 16 consumers) against a deque model; Miri i686 cross-target log equality',
 'C10': 'in-process form-agreement monitor (every operator form vs ref-ref on fresh clones, value and panic-ness) + model check of the canonical result',
 'C11': 'runtime monitor asserting r^n <= x < (r+1)^n on every returned root; std and no_std builds; step budget on the Newton loop',
 'C12': 'differential runtime monitor vs CPython ** over all exponent types and forms',
 'C13': 'runtime monitor: math.gcd model + Bezout identity / multiple-of definitions asserted on results; step budget on the Stein loop',
 'C14': 'panic-ness oracle over the union of all workloads in debug and release + failure table; process-death attribution; logical step budgets',
 'C15': 'sanitizers: guard-page allocator (end/start modes, std and no_std builds of the library, operands write-protected) under exhaustive length sweep, valgrind memcheck, Miri (aarch64, s390x), AddressSanitizer, hardware-fault attribution, operand-mutation and ASCII monitors',
 'C16': 'build-matrix observation (cargo check/build per configuration) + cross-configuration event-log equality monitor, each log model-checked',
 'C17': 'recording Serializer vs token-grammar model; token-replay Deserializer (all carrier widths, size hints, in-place) and a strict untagged length-prefixing reader re-reading every recorded serialisation; Miri i686 cross-target log equality',
 'C18': 'logged byte-stream RNG + independent stream-decoding model (value and bytes consumed) for gen_biguint / bounded sampling, range + canonical + coverage + RandomBits-agreement monitors for gen_bigint, exhaustive first-draw enumeration for small bounds; Miri i686/s390x cross-target log equality',
 'C19': 'differential runtime monitor vs CPython sign/abs/max; exhaustive Sign tables',
 'C20': 'hooked deterministic work counter around products on fixed dense operands (every public route to a product, std and no_std builds, balanced / near-balanced / unbalanced shapes), ratio/bound monitor; products digest-checked; no timing',
}
NOTE = {
 'C15': 'assumes faults inside sub-slices of one allocation are caught by value oracles (C02/C03/C06), not by allocator-level tools; the asm operand-constraint mismatch is unobservable at run time',
 'C14': 'termination is decided as bounded progress on hooked loops; wall-clock watchdog expiry is inconclusive, not a violation',
 'C16': 'compilation is observed by running cargo on a scratch manifest whose src is /repo/src',
 'C20': 'the counter counts digit multiplications in the row routine (mac_digit); Toom-3 interpolation overhead (adds/shifts) is not counted',
}
props = [json.loads(l) for l in open(os.path.join(V, 'properties.jsonl'))]
hooks_commits = subprocess.run(['git', '-C', '/repo', 'log', '--format=%h %s', '--grep=^verif hooks'], capture_output=True, text=True).stdout.strip().splitlines()
checks = []
for p in props:
    pid = p['id']
    checks.append({
        'property_id': pid,
        'quick_cmd': 'python3 check.py run %s --tier quick' % pid,
        'thorough_cmd': 'python3 check.py run %s --tier thorough' % pid,
        'evidence_file': '/verif/evidence/%s.json' % pid,
        'replay_cmd_template': 'python3 check.py replay {path}',
        'engine': 'nbv',
        'level_claimed': {
            'category': 'exploration',
            'text': 'Runtime monitoring: the real library, built from the working tree with coverage hooks, is driven through a structured + seeded workload and every recorded call is judged by an independent executable model; the claim is "held on the executions listed in the evidence (counts, probe-confirmed regimes, samples)", never "verified for all inputs".',
            'design_ref': 'DESIGN.md section 8 (%s) and sections 3-7' % pid,
        },
        'level_note': NOTE.get(pid, 'trusted base: CPython int arithmetic and the small models in nbv/ (validated against the tree and on exhaustive small domains), the driver (nbdrive) echo/dual-export channel, cargo/rustc'),
        'technique': TECH[pid],
    })
m = {
    'version': 1,
    'setup_cmd': 'python3 check.py setup',
    'hooks': {
        'guard': 'num_bigint_verif',
        'enable': 'RUSTFLAGS="--cfg num_bigint_verif" (set by nbv/build.py for every driver variant; never set by the baseline command)',
        'baseline_off_cmd': 'cd /repo && (cargo nextest run --workspace --no-fail-fast --tool-config-file pb:/w/lib/nextest.toml --profile pb --test-threads 8 --offline || cargo test --workspace --no-fail-fast --offline)',
        'source_commits': [c.split(' ')[0] for c in hooks_commits],
        'add_only': True,
    },
    'engines': [{'name': 'nbv', 'path': '/verif/check.py', 'serves_properties': [p['id'] for p in props],
                 'kind_free_text': 'runtime monitoring: Python workload generators + oracles (nbv/), Rust driver interpreter (driver/) built in several variants (debug, release, no_std, minimal features, guard-page allocator, ASan) and run natively / under valgrind; offline'}],
    'checks': checks,
    'notes': 'Exit codes: 0 held on what was observed; 1 + VIOLATION lines; 2 + INCONCLUSIVE lines (watchdog, tool failure, coverage floor missed) - never mapped to a violation. Genuine defects found and repaired are listed in known_findings.json (all fixed; none suppressed). Seeded changes used to validate the checks are under seeded/.',
    'not_applicable': [],
}
json.dump(m, open(os.path.join(V, 'MANIFEST.json'), 'w'), indent=1)
print('wrote MANIFEST.json with', len(checks), 'checks; hook commits:', len(hooks_commits))
