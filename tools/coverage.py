#!/usr/bin/env python3
"""Source coverage of /repo/src under the quick workloads of all 20 properties (audit aid, not a check).
Builds the driver with -Cinstrument-coverage (nightly), runs every property's quick-tier driver stages through it,
merges the profiles and lists the functions of the library that were never executed.
usage: tools/coverage.py [Cxx ...]        -> out/coverage/uncovered.txt, out/coverage/summary.txt"""
import glob, importlib, os, shutil, subprocess, sys
sys.path.insert(0, os.path.join(os.path.dirname(os.path.abspath(__file__)), '..'))
from nbv import build, runner
from nbv.core import OUT

def main():
    merge_only = sys.argv[1:2] == ['--merge-only']
    props = [] if merge_only else (sys.argv[1:] or ['C%02d' % i for i in range(1, 21)])
    cov = os.path.join(OUT, 'coverage') if build.REPO == '/repo' else build.DRIVER.rstrip('/') + '-cov'
    if not merge_only:
        shutil.rmtree(cov, ignore_errors=True)
        os.makedirs(cov)
    binary = build.ensure_built('cov', quiet=False)
    seen = set()
    for p in props:
        mod = importlib.import_module('nbv.props.' + p.lower())
        n = 0
        for st in mod.stages('quick', 1):
            if 'groups' not in st or st.get('tool'):
                continue
            v = st.get('variant', '')
            key = (p, 'nostd' in v)
            if key in seen:
                continue          # one run per property (the script is the same for rel / dbg)
            if 'nostd' in v:
                continue          # the coverage binary has std on
            seen.add(key)
            env = dict(st.get('env') or {})
            env.pop('NBD_GUARD', None)
            env['LLVM_PROFILE_FILE'] = os.path.join(cov, '%s-%%p-%%m.profraw' % p)
            sr = runner.run_stage('cov', st['groups'], env=env, timeout=3000, binary=binary, mem=None)
            n += sr.events
        print('[cov] %s: %d events' % (p, n), file=sys.stderr)
    bindir = [d for d in glob.glob(os.path.expanduser('~/.rustup/toolchains/nightly-*/lib/rustlib/*/bin')) if os.path.exists(os.path.join(d, 'llvm-profdata'))][0]
    raws = glob.glob(os.path.join(cov, '*.profraw'))
    prof = os.path.join(cov, 'all.profdata')
    lst = os.path.join(cov, 'raws.txt')
    open(lst, 'w').write('\n'.join(raws))
    subprocess.check_call([os.path.join(bindir, 'llvm-profdata'), 'merge', '-sparse', '-f', lst, '-o', prof])
    for r in raws:
        os.unlink(r)
    srcs = []
    for root, _, fs in os.walk(os.path.join(build.REPO, 'src')):
        srcs += [os.path.join(root, f) for f in fs if f.endswith('.rs')]
    rep = subprocess.run([os.path.join(bindir, 'llvm-cov'), 'report', binary, '-instr-profile=' + prof] + srcs,
                         stdout=subprocess.PIPE, text=True).stdout
    open(os.path.join(cov, 'summary.txt'), 'w').write(rep)
    fn = subprocess.run([os.path.join(bindir, 'llvm-cov'), 'report', binary, '-instr-profile=' + prof, '-show-functions', '-Xdemangler=rustfilt'] + srcs,
                        stdout=subprocess.PIPE, stderr=subprocess.DEVNULL, text=True).stdout
    if not fn.strip():
        fn = subprocess.run([os.path.join(bindir, 'llvm-cov'), 'report', binary, '-instr-profile=' + prof, '-show-functions'] + srcs,
                            stdout=subprocess.PIPE, text=True).stdout
    open(os.path.join(cov, 'functions.txt'), 'w').write(fn)
    print(rep[-1500:])
    # lines changed in the checked tree relative to its git HEAD that are executable and were never executed
    diff = subprocess.run(['git', '-C', build.REPO, 'diff', '-U0', 'HEAD', '--', 'src'], stdout=subprocess.PIPE, text=True).stdout
    if diff.strip():
        import re
        changed = {}
        cur = None
        for l in diff.splitlines():
            if l.startswith('+++ b/'):
                cur = l[6:]
            m = re.match(r'@@ -\S+ \+(\d+)(?:,(\d+))? @@', l)
            if m and cur:
                a, n = int(m.group(1)), int(m.group(2) or '1')
                changed.setdefault(cur, set()).update(range(a, a + n))
        notrun, ran, total = [], 0, 0
        for f, lines in sorted(changed.items()):
            sh = subprocess.run([os.path.join(bindir, 'llvm-cov'), 'show', binary, '-instr-profile=' + prof, os.path.join(build.REPO, f)],
                                stdout=subprocess.PIPE, stderr=subprocess.DEVNULL, text=True).stdout
            for l in sh.splitlines():
                m = re.match(r'\s*(\d+)\|\s*([0-9.]+[kMG]?)\|(.*)', l)
                if m and int(m.group(1)) in lines:
                    total += 1
                    if m.group(2) == '0':
                        notrun.append('%s:%s:%s' % (f, m.group(1), m.group(3).strip()[:90]))
                    else:
                        ran += 1
        print('CHANGED-LINES executable=%d executed=%d not_executed=%d' % (total, ran, len(notrun)))
        for x in notrun[:40]:
            print('  NOT-EXECUTED ' + x)

if __name__ == '__main__':
    main()
