#!/bin/bash
# usage: ingest_neutral.sh Cxx [checks...]   (default: all 20 quick checks)
# copies a sub-agent's property-PRESERVING changes (/tmp/wt/Cxx/_out/patch{A,B,C}.diff) to seeded/neutral/ and runs the
# quick checks against each in a scratch worktree; every line must say rc=0.
p=$1; shift
checks="$@"
[ -z "$checks" ] && checks="C01 C02 C03 C04 C05 C06 C07 C08 C09 C10 C11 C12 C13 C14 C15 C16 C17 C18 C19 C20"
mkdir -p /verif/seeded/neutral
for x in A B C; do
  src=/tmp/wt/$p/_out/patch$x.diff
  [ -f $src ] || continue
  cp $src /verif/seeded/neutral/${p}n$x.diff
  /verif/tools/trymut.sh ${p}n$x /verif/seeded/neutral/${p}n$x.diff quick $checks 2>&1 | grep MUT
done
cp /tmp/wt/$p/_out/notes.md /verif/seeded/neutral/${p}.notes.md 2>/dev/null
