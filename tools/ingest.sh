#!/bin/bash
# usage: ingest.sh Cxx <dstA> <dstB> "<demo flags for A>" "<demo flags for B>" [extra checks...]
# copies a sub-agent's deliverables (/tmp/wt/Cxx/_out) into seeded/Cxx<dstA>, seeded/Cxx<dstB>, confirms them
# independently and runs the property's own quick check (plus extra checks) against each.
p=$1; da=$2; db=$3; fa="$4"; fb="$5"; shift 5
for pair in "A:$da:$fa" "B:$db:$fb"; do
  src=${pair%%:*}; rest=${pair#*:}; dst=${rest%%:*}; flags=${rest#*:}
  d=/verif/seeded/${p}${dst}
  mkdir -p $d
  cp /tmp/wt/$p/_out/patch$src.diff $d/patch.diff || continue
  cp /tmp/wt/$p/_out/demo$src.rs $d/demo.rs
  cp /tmp/wt/$p/_out/notes.md $d/agent_notes.md 2>/dev/null
  /verif/tools/confirm_seed.sh ${p}${dst} $flags 2>&1 | grep CONFIRM
  /verif/tools/trymut.sh ${p}${dst} $d/patch.diff quick $p "$@" 2>&1 | grep MUT
done
