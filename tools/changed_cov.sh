#!/bin/bash
# usage: changed_cov.sh <name> <patch> <PROP> [<PROP>...]
# Applies a patch to a scratch worktree, builds the coverage driver against it, runs the quick workloads of the given
# properties and reports which of the patch's executable lines were never executed.
name=$1; patch=$(realpath $2); shift 2
wt=/tmp/mut/cc-$name
mkdir -p /tmp/mut
git -C /repo worktree remove --force $wt >/dev/null 2>&1
git -C /repo worktree add -q --detach $wt HEAD || exit 3
if ! git -C $wt apply $patch 2>/dev/null; then (cd $wt && patch -p1 --fuzz=3 -s < $patch) || { echo "CC $name: patch does not apply"; git -C /repo worktree remove --force $wt; exit 3; }; fi
export NBV_REPO=$wt NBV_SHADOW=/tmp/mut/shadow-cc-$name
out=$(cd /verif && python3 tools/coverage.py "$@" 2>/dev/null | grep -E "CHANGED-LINES|NOT-EXECUTED")
echo "CC $name props=$* $(echo "$out" | head -1)"
echo "$out" | grep NOT-EXECUTED | head -12
git -C /repo worktree remove --force $wt
rm -rf /tmp/mut/shadow-cc-$name /tmp/mut/shadow-cc-$name-cov
