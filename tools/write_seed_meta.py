#!/usr/bin/env python3
import json, os
V = os.path.dirname(os.path.dirname(os.path.abspath(__file__)))
M = {
 'C01A': ('C01', 'add_assign with a shorter left operand extends before adding: carry lands one digit too low', 'needs `+=`/val-ref form with self shorter than other, a carry out of the common low part and all-ones high digits of the longer operand (e.g. 1 += 2^128-1); ref-ref form unaffected', '', ['C01']),
 'C01B': ('C01', '`&a - b` (ref-val) passes a truncated slice to sub2rev so a longer subtrahend is not detected', 'needs the &BigUint - BigUint form, a<b, b longer than a and low digits of b <= a (no borrow), e.g. &5 - (2^64+3) returns instead of panicking', '', ['C01', 'C10', 'C14']),
 'C02A': ('C02', 'Karatsuba Plus-arm temporary resized to j0.len+j1.len instead of len', 'needs shorter operand 66..256 digits, half-differences of equal sign, odd length > 32 with all-ones top halves, e.g. ((B^k-1)B^k+1)^2 for odd k 33..127: panic in add2/sub2', '', ['C02', 'C14']),
 'C02B': ('C02', 'mac_digit folds the row carry into a_hi[0]/a_hi[1] without rippling further', 'needs Karatsuba regime, opposite-sign half differences (accumulating into populated acc) and an all-ones digit above the bumped one (digit-aligned 0/MAX block operands): silently wrong product', '', ['C02']),
 'C03A': ('C03', 'div_rem_core a0==b0 branch uses a0+a2 instead of a0+a1', 'needs multi-digit divisor, a step with top remainder digit == divisor top digit, a2 << a1 and b1 > b0 (constructed input, ~2^-64 on random digits)', '', ['C03']),
 'C03B': ('C03', 'BigInt::div_rem_euclid fix-up keyed on sign of dividend instead of sign of remainder', 'needs div_rem_euclid / checked_div_rem_euclid with a negative dividend that is an exact multiple of the divisor: returns (q-+1, |b|)', '', ['C03']),
 'C04A': ('C04', 'BigInt |= drops normalize() in the (Minus, Plus) arm', 'needs negative left operand longer than one digit whose magnitude shrinks (e.g. -(2^64) | (2^64-1) = -1 with digits [1,0])', '', ['C04', 'C07']),
 'C04B': ('C04', 'BigInt::set_bit normalises only when clearing', 'needs a negative value of magnitude exactly 2^(64k) and set_bit(i,true) below the lowest set bit', '', ['C04', 'C07']),
 'C05A': ('C05', 'Montgomery sub_vv derives the borrow from xi-yi without the incoming borrow', 'needs odd modulus >= 3 digits, the overflow branch of montgomery() and a middle digit of the intermediate equal to the modulus digit with a borrow coming in (e.g. m = 2^192-1, bases just below m, exponent 2)', '', ['C05']),
 'C05B': ('C05', 'plain_modpow squares u32::BITS instead of BITS times per skipped zero exponent digit', 'needs even modulus and exponent >= 2^64 with zero low 64-bit digit(s)', '', ['C05']),
 'C06A': ('C06', 'from_inexact_bitwise_digits_le returns BigUint{data} without normalising', 'needs radix 8/32/64/128 input whose bits above the last complete 64-bit word are zero (e.g. 22 octal digits with top digit 0/1, leading zeros crossing a word)', '', ['C06', 'C04']),
 'C06B': ('C06', 'BigInt Octal formatter passes is_positive() instead of !is_negative()', 'needs BigInt zero formatted with {:o}/{:#o}/{:+o}: "-0"', '', ['C06']),
 'C07A': ('C07', 'bitand_neg_neg stops the high-digit loop when carry_a == 0 ignoring carry_and', 'needs both operands negative with unequal digit lengths and bit-disjoint low twos-complement digits', '', ['C07']),
 'C07B': ('C07', 'shr_round_down treats a shift amount that does not fit u64 as "no rounding"', 'needs negative BigInt >> u128/i128 amount > u64::MAX: 0 instead of -1', '', ['C07']),
 'C08A': ('C08', 'high_bits_to_u64 breaks out of the digit loop once bits_want == 0', 'needs >= 3-4 digit value whose top bits are an exact tie and whose only deciding 1-bit is two or more digits below the window', '', ['C08']),
 'C08B': ('C08', 'BigInt::to_i64 Minus arm off by one (accepts -(2^63+1))', 'needs exactly i64::MIN - 1 (also isize, TryFrom)', '', ['C08']),
 'C09A': ('C09', 'U32Digits::next_back forgets to reset next_is_lo when it hits exhaustion', 'needs mixed-direction iteration: next() took the low half of the last digit, next_back() hits exhaustion, then len()/size_hint()/count() underflow', '', ['C09']),
 'C09B': ('C09', 'to_signed_bytes_be exception test ignores lower digits', 'needs negative value with > 1 digit, top byte 0x80, rest of top digit zero and a non-zero lower digit, e.g. -(2^71+1)', '', ['C09']),
 'C10A': ('C10', 'sub2rev no longer checks the surplus high digits of the subtrahend', 'needs scalar - BigUint or &BigUint - BigUint with the right operand longer and non-borrowing low digits', '', ['C10', 'C14']),
 'C10B': ('C10', 'Pow<&BigUint> for BigUint tests is_zero before exp.is_zero: 0^0 = 0', 'needs base 0 by value, BigUint exponent 0', '', ['C10', 'C12']),
 'C11A': ('C11', 'BigUint::sqrt returns the scaled guess directly when trailing_zeros >= scale (std only)', 'needs x >= 2^1024 with only the top ~1023 bits non-zero and a non-square shifted value, std feature', '', ['C11']),
 'C11B': ('C11', 'BigInt::sqrt negativity assert downgraded to debug_assert', 'needs release build, negative value, the sqrt entry point (nth_root(2) still panics)', '--release', ['C11', 'C14']),
 'C12A': ('C12', 'same reorder as C10B (0^0 with BigUint exponent, by-value base)', 'needs base 0 by value, BigUint exponent 0', '', ['C12', 'C10']),
 'C12B': ('C12', 'power-of-two fast path computes the shift in the exponent type', 'needs base an exact power of two (not 1/2), u8/u16 exponent and k >= 256 or k*(e-1) overflowing the type', '', ['C12']),
 'C13A': ('C13', 'gcd reduces lopsided operands (m %= n) before measuring the common power of two', 'needs lengths differing by >= 2 digits, the shorter operand even and dividing the longer exactly', '', ['C13']),
 'C13B': ('C13', 'is_multiple_of early reject compares Option<u64> trailing zeros (None < Some)', 'needs receiver exactly 0 and non-zero argument', '', ['C13']),
 'C14A': ('C14', 'sub2rev underflow check inspects only the lowest surplus digit', 'needs &BigUint - BigUint / scalar - BigUint with subtrahend >= 2 digits longer, zero digit just above the minuend length, no borrow', '', ['C14', 'C10']),
 'C14B': ('C14', 'monty_modpow pads rr only when empty', 'needs odd modulus >= 2 digits with 2^(128 len) mod m shorter than m (2^k - c moduli): double panic -> SIGABRT', '', ['C14', 'C05']),
 'C15A': ('C15', 'sub2 passes b.len() instead of min(a.len,b.len) to the asm loop', 'needs BigUint underflow path with 5*floor(b.len/5) > a.len: heap overflow by the asm loop', '', ['C15', 'C14']),
 'C15B': ('C15', 'gen_biguint under-sizes its u64 buffer (len/2 + (rem>0))', 'needs rand feature and bit_size % 64 == 32', '--features rand', ['C15', 'C18']),
 'C16A': ('C16', 'no_std-only scaled initial guess in nth_root without the guard', 'needs a build without std, nth_root(n) with n > 64 and ceil((bits-64)/n)*n >= bits: divide by zero panic', '--no-default-features', ['C16', 'C11']),
 'C16B': ('C16', 'Rem<i64> for BigInt uses abs() instead of unsigned_abs()', 'needs debug profile and scalar exactly i64::MIN / isize::MIN: overflow panic in debug only', '(debug profile)', ['C16', 'C10', 'C14']),
 'C17A': ('C17', 'serializer emits the high half when leading_zeros <= 32', 'needs serde feature and bit length = 32 mod 64: trailing zero u32 digit and length one too large', '--features serde', ['C17']),
 'C17B': ('C17', 'BigInt deserialize no longer clears the magnitude for sign 0', 'needs serde feature and input (0, non-zero digits)', '--features serde', ['C17', 'C04']),
 'C18A': ('C18', 'gen_bigint_range negates the sample when ubound == 0', 'needs rand feature, BigInt range with upper bound exactly 0 and an accepted candidate 0', '--features rand', ['C18']),
 'C18B': ('C18', 'UniformBigInt::new_inclusive calls new(low, high) before widening', 'needs rand feature, inclusive BigInt range with low == high: panics', '--features rand', ['C18', 'C14']),
 'C19A': ('C19', 'abs_sub uses a hand-written comparison that is wrong for two negatives', 'needs both operands negative with different magnitudes', '', ['C19']),
 'C19B': ('C19', 'Sign * Sign: equal-signs arm first so NoSign*NoSign = Plus', 'needs direct Sign*Sign with both NoSign', '', ['C19']),
 'C20A': ('C20', 'Toom-3 part size y.len()/2+1 instead of /3+1', 'needs shorter operand > 256 digits; products stay correct, cost becomes quadratic', 'RUSTFLAGS="--cfg num_bigint_verif"', ['C20']),
 'C20B': ('C20', 'mul3 feeds factors longer than 4096 digits through in 4096-digit blocks', 'needs the longer factor > 4096 digits; only the 8192 and 16384 grid points expose it', 'RUSTFLAGS="--cfg num_bigint_verif"', ['C20']),
}
for sid, (prop, what, needs, flags, caught) in M.items():
    d = os.path.join(V, 'seeded', sid)
    meta = {
        'id': sid, 'breaks_property': prop, 'change': what, 'needs_to_manifest': needs,
        'origin': 'fresh sub-agent given only the property text and a scratch worktree (nothing from /verif)',
        'confirmed_by_me': {
            'how': 'tools/confirm_seed.sh %s %s (scratch worktree of /repo HEAD: demo passes on the unchanged tree; with the patch the full existing suite `cargo test --offline` passes and the demo fails)' % (sid, flags),
            'result': 'clean_demo=PASS suite_with_patch=PASS demo_with_patch=FAIL',
        },
        'demo_flags': flags,
        'detected_by_quick_checks': caught,
        'how_run_against_checks': 'tools/trymut.sh %s seeded/%s/patch.diff quick %s (scratch worktree + shadow driver; /repo untouched)' % (sid, sid, ' '.join(caught)),
    }
    json.dump(meta, open(os.path.join(d, 'meta.json'), 'w'), indent=1)
print(len(M), 'meta files written')

# ---- second round (fresh sub-agents told which first-round ideas to avoid) -------------------------------------
M2 = {
 'C01C': ('C01', 'SubAssign<&BigUint> pops at most one zero top digit instead of normalising', 'needs a subtraction in which two or more top digits cancel (e.g. x - x for x >= 2^64)', '', ['C01', 'C10', 'C04'], ''),
 'C01D': ('C01', 'AddAssign<u128> for BigUint uses resize(2,0) which truncates a longer left operand', 'needs the u128 scalar form, scalar >= 2^64 and a BigUint wider than 128 bits', '', ['C01', 'C10'], 'MISSED by C01 at first (no scalar forms in its workload; C10 caught it): scalar + / - forms added to C01'),
 'C02C': ('C02', 'Toom-3 split drops the Ord::min bound on the middle limb of x', 'needs shorter operand > 256 digits and the longer between ~1.5x and 2x (300x500): slice panic', '', ['C02', 'C14'], ''),
 'C02D': ('C02', 'sub_sign normalises `a` with position instead of rposition', 'needs >= 2 Karatsuba levels and a zero digit exactly at index len/2-1 of a half that splits again: silently wrong product', '', ['C02'], ''),
 'C03C': ('C03', 'div_rem_ref two-digit fast path placed before the a<b pre-check', 'needs dividend of exactly two digits and divisor of >= 3 digits through the by-reference path', '', ['C03', 'C14'], ''),
 'C03D': ('C03', 'zero-divisor guard in div_rem_digit / rem_digit downgraded to debug_assert', 'needs release build and a zero divisor reaching the single-digit loops (x / 0u32, x % BigUint::zero() ...)', '--release', ['C03', 'C14'], ''),
 'C04C': ('C04', 'from_inexact_bitwise_digits_le: partial word pushed only when non-zero, no normalisation', 'needs radix 8/32/64/128 input with at least one full word of leading zero digits', '', ['C04', 'C06'], ''),
 'C04D': ('C04', 'BigInt %= u128/i128 wide branch forgets the NoSign reset', 'needs %= with a u128/i128 operand above u64::MAX and a left operand that is an exact non-zero multiple: (Plus|Minus, 0)', '', ['C04', 'C10'], 'MISSED by C04 at first: history route "scalar_zero" (x *= s; x %= s for every scalar width) and exact-multiple scalar forms in C10 added'),
 'C05C': ('C05', 'monty_modpow merges reduce/pad into if-else: reduced base no longer padded', 'needs odd modulus, base with more digits than the modulus whose residue has fewer digits: assert -> SIGABRT', '', ['C05', 'C14'], ''),
 'C05D': ('C05', 'removes the zero-result guard of BigInt::modinv (reverts fix F3)', 'needs modulus +-1 with a sign pattern going through modulus - result', '', ['C05'], ''),
 'C06C': ('C06', 'to_radix_digits_le big-base loop breaks when the super-chunk remainder becomes zero', 'needs non-power-of-two radix, value >= 64 digits and a super-chunk whose top >= power digits are zero (10^5000+1): output too short', '', ['C06'], 'MISSED at first: "sparse_big" values (radix^k + small, a*radix^k + b*radix^j + c, well above 64 digits) added for every radix'),
 'C06D': ('C06', 'leading-underscore check runs before the optional + is stripped', 'needs input of the shape "+_<digits>"', '', ['C06'], ''),
 'C07C': ('C07', 'set_negative_bit top mask rewritten as (1 << (tz%64+1)) - 1', 'needs negative value with trailing_zeros % 64 == 63 and set_bit(bit < tz, true): overflow panic in debug, wrong value in release', '', ['C07', 'C14'], ''),
 'C07D': ('C07', 'biguint_shl returns early for zero before the negative-shift check', 'needs value 0 and a negative shift amount', '', ['C07', 'C14'], ''),
 'C08C': ('C08', 'to_f32/to_f64 scale by bumping the IEEE exponent field', 'needs magnitude in [2^1024, 2^1088) (f64) / [2^128, 2^192) (f32) whose leading bits are not 100..0: NaN instead of inf', '', ['C08'], ''),
 'C08D': ('C08', 'from_f64 fast path through u128 for n <= u128::MAX as f64', 'needs exactly 2^128 as f64: saturating cast gives 2^128-1', '', ['C08'], ''),
 'C09C': ('C09', 'U32Digits::nth override flips the half flag for odd n without advancing', 'needs an odd number of next() calls followed by nth(k) with odd k', '', ['C09'], ''),
 'C09D': ('C09', 'from_signed_bytes negates in digit space and pops only one zero top digit', 'needs negative input whose 0xff padding spans two or more whole native digits', '', ['C09', 'C04'], ''),
 'C10C': ('C10', 'bitor_pos_neg extends with raw high digits of b', 'needs positive operand by value shorter than the negative one whose overlapping low digits are all zero (5 | -(2^64))', '', ['C10', 'C07'], ''),
 'C10D': ('C10', 'owning div_rem tests the zero dividend before the zero divisor', 'needs 0 / 0 through a form using the owning div_rem (val/val, u64/usize/u128 scalars)', '', ['C10', 'C14'], ''),
 'C11C': ('C11', 'u64 fast path of sqrt uses f64 sqrt + one-step correction that overflows', 'needs u64-sized x >= (2^32-1)^2, std only: panic in debug, wrong value in release', '', ['C11'], ''),
 'C11D': ('C11', 'nth_root shortcut "bits*1000 <= n*1585 => 2"', 'needs degree n >= 200 (200, 253, 306, 400 ...) and x in [3^n, 2^floor(1.585 n))', '', ['C11'], 'MISSED at first: r^n, r^n +- 1 for small bases r = 2..12 at every degree up to 1200 (+ huge degrees) added'),
 'C12C': ('C12', '&BigUint pow fast path truncates the exponent with `as u32`', 'needs base 0 by reference and a u64/usize/u128 exponent that is a non-zero multiple of 2^32: 0^e = 1', '', ['C12'], 'MISSED at first: wide exponents with zero low 32/64 bits added for bases 0, +-1'),
 'C12D': ('C12', 'fail-fast "memory overflow" guard on bits*exp', 'needs base +-1 and a u128 exponent above u64::MAX: spurious panic', '', ['C12', 'C14'], ''),
 'C13C': ('C13', 'BigInt::extended_gcd override with an i64 fast path', 'needs an operand exactly i64::MIN paired with -1, 0 or i64::MIN: overflow panic / negative gcd', '', ['C13'], 'MISSED at first: primitive-boundary operand family (+-2^k, 2^k +- 1 for k = 7..128) added'),
 'C13D': ('C13', 'next_multiple_of shortcut returns `other` when |self| < |other|', 'needs 0 < |self| < |other| with opposite signs', '', ['C13'], ''),
 'C14C': ('C14', 'same mask rewrite as C07C (written independently)', 'see C07C', '', ['C14', 'C07'], ''),
 'C14D': ('C14', 'same reorder as C07D (written independently)', 'see C07D', '', ['C14', 'C07'], ''),
 'C15C': ('C15', 'x86_64 add loop prefetches b one iteration ahead: reads b[5*floor(len/5)] (value discarded)', 'needs b.len() >= 5, b.len() % 5 == 0 and b ending exactly at the end of its allocation: 8-byte over-READ, results unchanged', '', ['C15'], 'value oracles (C01, C14, C03) stay silent as they should; only the guard-page allocator / valgrind see it'),
 'C15D': ('C15', 'BigUint % u64 hand-written loop reaches hardware div without a zero check', 'needs % with a zero u64/usize divisor: SIGFPE in release, wrong panic in debug, 0 % 0 = 0', '', ['C15', 'C14', 'C03'], ''),
 'C16C': ('C16', 'import tidy-up makes quickcheck + arbitrary together ambiguous (E0034)', 'needs both features enabled', '--features quickcheck,arbitrary', ['C16'], 'other checks report INCONCLUSIVE (all-features driver does not build), not a violation'),
 'C16D': ('C16', 'from_f64 truncation compiled only with std', 'needs a no_std build and a float in (-1, 0): None instead of Some(0)', '--no-default-features', ['C16'], ''),
 'C17C': ('C17', 'U32Visitor skips normalisation when the size hint was exact', 'needs exact size hint and a sequence whose top 64-bit digit is zero', '--features serde', ['C17', 'C04'], ''),
 'C17D': ('C17', 'Sign deserialize matches on sign.signum()', 'needs an invalid sign byte (other than -1, 0, 1): accepted', '--features serde', ['C17'], ''),
 'C18C': ('C18', 'UniformBigInt::new asserts only that the difference is non-zero', 'needs Uniform::new with low > high: no panic, samples outside', '--features rand', ['C18'], 'MISSED at first: inverted ranges for new / gen_range (exclusive) were not in the workload (only empty and inclusive-inverted): added'),
 'C18D': ('C18', 'RandomBits -> BigInt picks the sign itself instead of calling gen_bigint', 'needs zero magnitude draw followed by a "re-draw" coin (tiny bit sizes)', '--features rand', ['C18'], ''),
 'C19C': ('C19', 'BigInt::set_one skips the work when the magnitude is already one', 'needs set_one on exactly -1', '', ['C19'], ''),
 'C19D': ('C19', 'trait ToBigUint for BigInt returns None for zero', 'needs zero through the trait (not the inherent method)', '', ['C19'], ''),
 'C20C': ('C20', 'Karatsuba recomputes p2 (4 recursive products)', 'visible at the doublings 1024->2048 and 8192->16384 and n x (2n-1) for n <= 256', 'RUSTFLAGS="--cfg num_bigint_verif"', ['C20'], 'C02 stays silent (products correct)'),
 'C20D': ('C20', 'squaring shortcut for &a * &a on the same object at every size', 'needs both operands to be the same object and >= 512 digits', 'RUSTFLAGS="--cfg num_bigint_verif"', ['C20'], 'would have been MISSED (the check multiplied two distinct operands): same-object squares (`worksq`) added before it was run'),
}
for sid, (prop, what, needs, flags, caught, note) in M2.items():
    d = os.path.join(V, 'seeded', sid)
    if not os.path.isdir(d):
        continue
    meta = {
        'id': sid, 'round': 2, 'breaks_property': prop, 'change': what, 'needs_to_manifest': needs,
        'origin': 'fresh second-round sub-agent given the property text, its own scratch worktree and a list of first-round ideas to avoid (nothing from /verif)',
        'confirmed_by_me': {'how': 'tools/confirm_seed.sh %s %s' % (sid, flags), 'result': 'clean_demo=PASS suite_with_patch=PASS demo_with_patch=FAIL'},
        'demo_flags': flags, 'detected_by_quick_checks': caught, 'note': note,
        'how_run_against_checks': 'tools/trymut.sh %s seeded/%s/patch.diff quick %s' % (sid, sid, ' '.join(caught)),
    }
    json.dump(meta, open(os.path.join(d, 'meta.json'), 'w'), indent=1)
print(len(M2), 'round-2 meta files written')

# ---- third round -------------------------------------------------------------------------------------------------
M3 = {
 'C01E': ('C01', 'sub2 returns early when the asm loop consumed both operands, skipping the underflow assert', 'needs equal digit counts that are a non-zero multiple of 5 and a < b: wraps instead of panicking', '', ['C01', 'C10', 'C14'], ''),
 'C01F': ('C01', 'BigInt - iN written as self + other.wrapping_neg()', 'needs the scalar exactly i32/i64/isize/i128::MIN in the binary - forms', '', ['C01', 'C10'], ''),
 'C02E': ('C02', 'mul3 pops at most two high zero digits instead of normalising', 'needs zero times a u128/i128 scalar >= 2^64 (empty left slice): non-canonical zero', '', ['C02', 'C04'], ''),
 'C02F': ('C02', 'mac3 picks shorter/longer before stripping low zero digits', 'needs a factor with whole low zero digits that is longer as stored but shorter after stripping, other factor 33..256 digits: panic', '', ['C02', 'C14'], ''),
 'C03E': ('C03', 'by-value div_rem strips low zero digits of the divisor and loses the dividend low digits in the remainder', 'needs by-value path (val/val, u128/i128 scalars >= 2^64), divisor with zero low digit(s), dividend with non-zero low digits', '', ['C03', 'C10'], ''),
 'C03F': ('C03', 'div_rem_ref tests the zero dividend before the zero divisor', 'needs 0 / 0 through the by-reference entry points', '', ['C03', 'C10', 'C14'], ''),
 'C04E': ('C04', 'same as C02E (written independently)', 'see C02E', '', ['C04', 'C10'], ''),
 'C04F': ('C04', 'BigInt::clone_from skips the magnitude copy for a zero source', 'needs clone_from with a zero source into a non-zero destination: (NoSign, stale digits)', '', ['C04'], ''),
 'C05E': ('C05', 'inv_mod_alt returns 1 for a low modulus digit of 1 (forgets the negation)', 'needs odd modulus >= 2 digits whose lowest digit is exactly 1 (2^64+1, k*2^64+1)', '', ['C05'], ''),
 'C05F': ('C05', 'BigInt::modpow precondition asserts demoted to debug_assert', 'needs release build and a negative exponent', '--release', ['C05', 'C14'], ''),
 'C06E': ('C06', 'from_radix_be packs aligned power-of-two digits with chunks anchored at the wrong end', 'needs from_radix_be, radix 2/4/16/256 and more than one word of digits not a multiple of the digits per word', '', ['C06'], ''),
 'C06F': ('C06', 'case folding with b | 0x20 accepts control bytes 0x10..0x19 as digits', 'needs an input string containing U+0010..U+0019', '', ['C06'], 'MISSED at first: the whole byte alphabet (every byte 0..=255 before/between/after digits, every text radix) added'),
 'C07E': ('C07', 'BigInt >>= drops the NoSign reset when the value is shifted down to zero', 'needs positive value, the assigning form and a shift >= bits', '', ['C07', 'C04'], ''),
 'C07F': ('C07', 'by-value BigUint << moves whole digits in place in the wrong direction when spare capacity exists', 'needs by-value/assign form, k/64 >= 1, more digits than k/64 and spare capacity > k/64 (a capacity condition)', '', ['C07', 'C04', 'C10'], 'caught because every form is also run on an operand with slack capacity'),
 'C08E': ('C08', 'BigUint::from_i128 fast path skips the sign check for values fitting i64', 'needs i128 scalar in [i64::MIN, -1]', '', ['C08'], ''),
 'C08F': ('C08', 'to_f32 narrows to u32 with the sticky bit read from the unaligned mantissa', 'needs a one-digit magnitude below 2^63 exactly half-way between two f32 with even lower neighbour (2^24+1)', '', ['C08'], ''),
 'C09E': ('C09', 'BigInt::new no longer clears the magnitude for NoSign', 'needs BigInt::new(NoSign, non-zero digits)', '', ['C09', 'C04'], 'MISSED at first: NoSign with a NON-zero payload was only generated in the thorough tier: now in every tier and in the C04 constructor routes'),
 'C09F': ('C09', 'word-at-a-time twos_complement_le re-arms a dead carry', 'needs little-endian signed forms, >= 17 bytes with a whole aligned 0xff group above a non-zero low group', '', ['C09', 'C04'], ''),
 'C10E': ('C10', 'BigInt >>= resets the sign before the rounding increment', 'needs negative value, assigning form, shift removing every significant bit: (NoSign, 1)', '', ['C10', 'C07'], ''),
 'C10F': ('C10', 'trait CheckedDiv for BigInt uses div_floor', 'needs the trait method (not the inherent one), opposite signs and a non-zero remainder', '', ['C10', 'C03'], ''),
 'C11E': ('C11', 'cbrt decides "fits in f64" by bit length instead of is_finite()', 'needs std and a 1024-bit value within 2^970 of 2^1024: unwrap on None', '', ['C11', 'C16', 'C14'], ''),
 'C11F': ('C11', 'no_std: climb phase of fixpoint compiled out + tighter power-of-two guess', 'needs no_std, nth_root n >= 4, bit length k*n+1: silently too small', '--no-default-features', ['C11', 'C16'], ''),
 'C12E': ('C12', 'top-down scan uses exp.next_power_of_two() which overflows', 'needs an odd exponent with the top bit of its type set (u8 129..255 any base; wider types with bases 0, +-1)', '', ['C12', 'C14'], ''),
 'C12F': ('C12', 'powsign simplified + from_parts without normalisation: 0^even = (Plus, 0)', 'needs BigInt base 0 and an even exponent >= 2', '', ['C12', 'C04'], ''),
 'C13E': ('C13', 'extended_gcd_lcm zero-operand shortcut always returns coefficient +1', 'needs extended_gcd_lcm with exactly one zero operand and the other negative', '', ['C13'], ''),
 'C13F': ('C13', 'BigUint::dec in-place borrow ripple leaves a zero top digit', 'needs dec on exactly 2^(64k)', '', ['C13', 'C04'], ''),
 'C14E': ('C14', 'cbrt scaling constant off by one: infinite recursion -> stack overflow', 'needs cbrt / nth_root(3) of a value with 1024+3k bits whose leading 54 bits are ones', '', ['C14', 'C11'], 'process death (SIGABRT) attributed via the BEGIN marker'),
 'C14F': ('C14', 'by-value Pow lost its exp == 0 guard: the squaring loop never ends', 'needs exponent 0 through a by-value form', '', ['C14', 'C12'], 'bases >= 2 exhaust the address-space cap (SIGABRT); bases 0/1 spin and are now cut by the per-command CPU watchdog'),
 'C15E': ('C15', 'div_rem_core trims leading zeros through a raw pointer without a lower bound', 'needs multi-digit divisor and an exactly zero remainder: reads the 8 bytes in front of the heap block', '', ['C15'], 'value oracles silent (correct); SIGSEGV in guard-start mode'),
 'C15F': ('C15', 'to_str_radix fast path lets radix 64/128/256 through to from_utf8_unchecked', 'needs to_str_radix(64|128|256) on a value with a digit >= 41: String with invalid UTF-8', '', ['C15', 'C06', 'C14'], 'MISSED by C15 at first (C06/C14 reported the missing panic): C15 now also calls out-of-range radices and flags any returned non-ASCII String'),
 'C16E': ('C16', 'same as C11E (written independently)', 'see C11E', '', ['C16', 'C11', 'C14'], ''),
 'C16F': ('C16', 'sub2rev surplus-digit check demoted to debug_assert', 'needs release profile and small - big through sub2rev forms', '--release', ['C16', 'C14'], ''),
 'C17E': ('C17', 'serializer identifies the top digit by value', 'needs top 64-bit digit below 2^32 and a lower digit with the same value (2^64+1)', '--features serde', ['C17'], 'MISSED at first: repeated-digit values added to the special-value pool'),
 'C17F': ('C17', 'cautious() rounds the raw hint before capping: overflow for usize::MAX', 'needs size_hint == usize::MAX and overflow checks on (debug)', '--features serde', ['C17'], ''),
 'C18E': ('C18', 'gen_biguint native buffer one digit short for bit_size = 32 mod 64', 'needs bit sizes 32, 96, 160 ...', '--features rand', ['C18', 'C15'], ''),
 'C18F': ('C18', 'rejection loop capped at 32 retries with a fold-back fallback', 'needs an RNG stream forcing >= 32 consecutive rejections', '--features rand', ['C18'], 'MISSED at first: forced rejection runs were 1, 2, 5 long; now also 31, 32, 33, 64, 200'),
 'C19E': ('C19', 'signum returns BigInt{sign, 1}: (NoSign, 1) for zero', 'needs signum of zero', '', ['C19', 'C04'], ''),
 'C19F': ('C19', 'is_positive written as !is_negative', 'needs is_positive on zero', '', ['C19'], ''),
 'C20E': ('C20', '*= builds the product in place (long multiplication) when the receiver has spare capacity', 'needs the compound-assignment form and spare capacity >= len(a)+len(b)+1 (a buffer condition)', 'RUSTFLAGS="--cfg num_bigint_verif"', ['C20'], 'caught by the `workas` stage (x *= &b into a receiver with slack) added when the report arrived'),
 'C20F': ('C20', 'sparse multiplier (>= half zero digits) dispatched to long multiplication', 'needs a factor with at least half of its digits zero as the shorter / right-hand operand', 'RUSTFLAGS="--cfg num_bigint_verif"', ['C20'], 'caught by the absolute clause (4096 x 4096 < n^2/4) on dense x sparse operands; the doubling clause is not applied to sparse operands because the unchanged tree itself reaches 3.3-3.7 there'),
}
for sid, (prop, what, needs, flags, caught, note) in M3.items():
    d = os.path.join(V, 'seeded', sid)
    if not os.path.isdir(d):
        continue
    meta = {
        'id': sid, 'round': 3, 'breaks_property': prop, 'change': what, 'needs_to_manifest': needs,
        'origin': 'fresh third-round sub-agent given the property text, its own scratch worktree and the list of earlier ideas to avoid (nothing from /verif)',
        'confirmed_by_me': {'how': 'tools/confirm_seed.sh %s %s' % (sid, flags), 'result': 'clean_demo=PASS suite_with_patch=PASS demo_with_patch=FAIL'},
        'demo_flags': flags, 'detected_by_quick_checks': caught, 'note': note,
        'how_run_against_checks': 'tools/trymut.sh %s seeded/%s/patch.diff quick %s' % (sid, sid, ' '.join(caught)),
    }
    json.dump(meta, open(os.path.join(d, 'meta.json'), 'w'), indent=1)
print(len(M3), 'round-3 meta files written')

M4 = {
 'C01G': ('C01', 'checked_sub compares equal-length operands from the least significant digit', 'needs checked_sub with >= 3 digits on both sides, equal length and equal leading digit, low digits ordered the other way', '', ['C01'], ''),
 'C01H': ('C01', 'u64 - BigUint one-digit arm uses the machine subtraction', 'needs release build, u64/usize on the left and a larger one-digit BigUint on the right: wraps instead of panicking', '--release', ['C01'], ''),
 'C02G': ('C02', 'half-Karatsuba gives the first partial product a bounded accumulator window', 'needs half-Karatsuba entered with a non-zero accumulator (Karatsuba minus arm, |x1-x0| vs |y1-y0| at least 2:1) and an all-ones digit at the window top', '', ['C02'], ''),
 'C02H': ('C02', 'Toom-3 recomposition copies w0 instead of adding it', 'needs Toom-3 on a non-zero accumulator: shorter factor > 256 digits and the longer at least twice as long', '', ['C02'], ''),
 'C03G': ('C03', 'trait CheckedDiv for BigInt returns div_floor', 'needs the trait method, opposite signs, inexact division', '', ['C03'], ''),
 'C03H': ('C03', 'iN %= BigUint negates the remainder with plain -r', 'needs overflow checks (debug), scalar exactly iN::MIN, divisor in (|MIN|, uN::MAX]', '', ['C03'], ''),
 'C04G': ('C04', 'division remainder un-shifted in place without re-normalising', 'needs divisor >= 2 digits with a small leading digit (non-zero normalisation shift) and a remainder shorter than the divisor', '', ['C04'], ''),
 'C04H': ('C04', 'serde Deserialize for BigInt trusts the serialized sign', 'needs serde and a (+-1, zero magnitude) pair', '--features serde', ['C04', 'C17'], ''),
 'C05G': ('C05', 'BigUint::modinv truncates the Euclidean partial quotient to one digit', 'needs a partial quotient >= 2^64 after the first step', '', ['C05'], ''),
 'C05H': ('C05', 'montgomery() drops the overflow of c + c2 in the per-row carry', 'needs odd modulus >= 2 digits, incoming carry 1 and c2 = 2^64-1 (modulus top digit all ones)', '', ['C05'], ''),
 'C06G': ('C06', '{:X} fast path hands values fitting i64 to the primitive formatter', 'needs {:X} on a negative value within i64', '', ['C06'], ''),
 'C06H': ('C06', 'BigInt::parse_bytes strips the sign itself and delegates to BigUint::parse_bytes', 'needs parse_bytes on "-+<digits>"', '', ['C06'], ''),
 'C07G': ('C07', 'bitor_neg_pos loses a digit to Zip after the common digits', 'needs negative | positive, negative operand longer and its low digits all zero', '', ['C07'], ''),
 'C07H': ('C07', 'BigInt::set_bit no longer normalises after set_negative_bit', 'needs set_bit(i, true) on -(2^(64j)) with i < 64j', '', ['C07'], ''),
 'C08G': ('C08', 'TryFrom<&BigInt> quick bit-length rejection excludes exactly iN::MIN', 'needs TryFrom/TryInto with the value iN::MIN', '', ['C08'], ''),
 'C08H': ('C08', 'From<i128> for BigInt fast path tests bit 64 instead of bit 63', 'needs an i128 in [2^63, 2^64) or [-2^64, -2^63)', '', ['C08'], ''),
 'C09G': ('C09', 'U32Digits::next decides the upper half of the last digit by value instead of the flag', 'needs next_back() before the front reaches the last native digit', '', ['C09'], ''),
 'C09H': ('C09', 'to_bytes_be fills the tail with chunks_exact_mut instead of rchunks_exact_mut', 'needs a magnitude of >= 3 native digits with unequal lower digits, big-endian export', '', ['C09'], ''),
 'C10G': ('C10', 'same change as C03H (written independently)', 'see C03H', '', ['C10'], ''),
 'C10H': ('C10', 'BigInt >> n decides the rounding by comparing in the shift amount\'s own type', 'needs a negative value whose trailing-zero count does not fit the (narrow) shift-amount type: i8 >= 128, u8 >= 256, i16 >= 32768, u16 >= 65536', '', ['C10', 'C07'],
          'MISSED by C10 at first (C07 caught it with an i8 amount and 256 trailing zeros): C10 now shifts, for every amount type, negative values whose trailing-zero count straddles that type\'s range'),
 'C11G': ('C11', 'nth_root power-of-two shortcut ignores divisibility of the exponent', 'needs x = 2^k with k >= 64, n >= 4 and n not dividing k', '', ['C11'], ''),
 'C11H': ('C11', 'cbrt scale-down threshold off by one: runaway recursion', 'needs std, 1024+3k bits with the top ~54 bits set', '', ['C11'], 'process death (SIGABRT) attributed via the BEGIN marker'),
 'C12G': ('C12', 'trailing-zero stripping with exp >>= tz + 1 overflows at the top bit of the exponent type', 'needs the exponent exactly the most significant bit of its type (128u8, 1<<31 u32 ...)', '', ['C12'], ''),
 'C12H': ('C12', 'dedicated squaring routine for pow drops a long carry', 'needs a 2..32-digit base whose doubled cross sum has an all-ones digit receiving a carry (structured digits only; random digits never)', '', ['C12'],
          'MISSED at first: C12 had no multi-digit bases with carry-prone digit structure; it now raises 2..40-digit bases built from a 17-value special-digit pool to exponents 2..16'),
 'C13G': ('C13', 'lcm strips each operand\'s own low zero digits', 'needs operands with different numbers of whole zero digits and the one with fewer having the larger tz mod 64', '', ['C13'], ''),
 'C13H': ('C13', 'BigInt::gcd equal-operand shortcut returns the (negative) operand', 'needs two equal negative operands', '', ['C13'], ''),
 'C14G': ('C14', 'BigInt::modinv early return for self == 0 swallows the zero-modulus panic', 'needs BigInt 0.modinv(0)', '', ['C14'], ''),
 'C14H': ('C14', 'U32Digits::next_back stops resetting next_is_lo', 'needs next(), then next_back() to exhaustion, then len()/size_hint()/count(): overflow panic (debug) or usize::MAX (release)', '', ['C14'], ''),
 'C15G': ('C15', 'x += &y single-pass rewrite stores the carry with a raw write past a full buffer', 'needs shorter += longer by reference with a carry out of the top digit and an exactly full buffer; values stay correct', '', ['C15'], 'value oracles silent (correct); SIGSEGV under the guard allocator (end mode)'),
 'C15H': ('C15', 'div_rem_digit shortcut reaches the hardware div with hi == divisor', 'needs >= 2-digit dividend whose top digit equals a one-digit divisor > u32::MAX: #DE / SIGFPE in release', '', ['C15'], ''),
 'C16G': ('C16', 'ilog2 helper rewritten as trailing_zeros', 'needs no_std and an output conversion with an odd radix: divide by zero', '--no-default-features', ['C16'], ''),
 'C16H': ('C16', 'Knuth-D add-back moved inside debug_assert_eq!', 'needs release profile and operands reaching the add-back step', '--release', ['C16'], ''),
 'C17G': ('C17', 'deserialize_in_place override keeps stale high digits', 'needs Deserialize::deserialize_in_place into a value with more digits than the incoming sequence', '--features serde', ['C17'],
          'MISSED at first: the driver never called deserialize_in_place; `dein` commands (longer / equal / shorter / zero places, both kinds) added'),
 'C17H': ('C17', 'Sign::deserialize truncates wide integers to i8 before validating', 'needs a format delivering i64/u64 and a sign value congruent to -1/0/1 mod 256', '--features serde', ['C17'],
          'MISSED at first: the token deserializer only handed signs over as i8; it now has every carrier width and the workload includes values congruent to -1/0/1 mod 256 and mod 65536'),
 'C18G': ('C18', 'rejection loop refills the rejected candidate at native digit width', 'needs a rejected first candidate and bound.bits() % 64 != 0 on a 64-bit-digit target', '--features rand', ['C18'], ''),
 'C18H': ('C18', 'gen_biguint trims only one zero top digit of the sample', 'needs bit size > 64 and a stream whose top two native digits are zero', '--features rand', ['C18'], ''),
 'C19G': ('C19', 'BigInt::is_one matches on the lowest digit only', 'needs a positive multi-digit value whose lowest digit is 1', '', ['C19'], ''),
 'C19H': ('C19', 'from_biguint(NoSign, m) clears the magnitude only under debug_assertions', 'needs release and (NoSign, non-zero magnitude)', '--release', ['C19'], ''),
 'C20G': ('C20', 'crossover constants retuned to 320/320 in optimized builds only', 'needs release: 1024->2048 costs x3.97', 'RUSTFLAGS="--cfg num_bigint_verif" --release', ['C20'], ''),
 'C20H': ('C20', 'half-Karatsuba pre-split restricted to x.len() <= 256', 'needs n x 64n with n in 257..340: above the schoolbook count', 'RUSTFLAGS="--cfg num_bigint_verif"', ['C20'], ''),
}
for sid, (prop, what, needs, flags, caught, note) in M4.items():
    d = os.path.join(V, 'seeded', sid)
    if not os.path.isdir(d):
        continue
    meta = {
        'id': sid, 'round': 4, 'breaks_property': prop, 'change': what, 'needs_to_manifest': needs,
        'origin': 'fresh fourth-round sub-agent given the property text, its own scratch worktree and the list of earlier ideas to avoid (nothing from /verif)',
        'confirmed_by_me': {'how': 'tools/confirm_seed.sh %s %s' % (sid, flags), 'result': 'clean_demo=PASS suite_with_patch=PASS demo_with_patch=FAIL'},
        'demo_flags': flags, 'detected_by_quick_checks': caught, 'note': note,
        'how_run_against_checks': 'tools/trymut.sh %s seeded/%s/patch.diff quick %s' % (sid, sid, ' '.join(caught)),
    }
    json.dump(meta, open(os.path.join(d, 'meta.json'), 'w'), indent=1)
print(len(M4), 'round-4 meta files written')

M5 = {
 'C01I': ('C01', 'BigUint += u64 in-place fast path drops a carry that runs off the top', 'needs >= 2 digits, every digit above the lowest all ones, and a u64/usize scalar overflowing the lowest digit', '', ['C01'], ''),
 'C01J': ('C01', 'Integer::dec rewritten as a ripple loop that does nothing on zero', 'needs Integer::dec (trait only) on a zero BigUint: returns quietly instead of panicking', '', ['C01'],
          'MISSED by C01 at first (the inc/dec helpers were only exercised under C13): C01 now drives Integer::inc / dec on 0, 1, 2^(64k), 2^(64k) +- 1 for both types'),
 'C02I': ('C02', 'BigInt *= i64 written with other.abs() as u64', 'needs the compound form, scalar exactly i64::MIN (isize::MIN), overflow checks on', '', ['C02'],
          'MISSED at first: C02 only multiplied by a short list of unsigned scalars; every scalar type at its extremes now goes through every form incl. the compound-assignment ones'),
 'C02J': ('C02', 'BigUint *= u128 multiple of 2^64 computed as scalar_mul + insert(0, 0)', 'needs a zero receiver and a u128 scalar >= 2^64 with zero low half: non-canonical zero', '', ['C02'], ''),
 'C03I': ('C03', 'Knuth-D add-back moved inside debug_assert! (variant)', 'needs a build without debug assertions and operands reaching add-back', '--release', ['C03'], ''),
 'C03J': ('C03', 'Integer::div_rem for BigInt takes a native i64 fast path', 'needs dividend exactly -2^63 and divisor exactly -1 as BigInt: native / overflows and panics', '', ['C03'],
          'MISSED at first: C03 had type-boundary values only as scalars; BigInt pairs (iN::MIN, -1), (uN::MAX, 1) and neighbours for N = 8..128 added'),
 'C04I': ('C04', '!&BigInt builds the result struct directly', 'needs the by-reference form and x = -1: (Plus, 0)', '', ['C04'], ''),
 'C04J': ('C04', 'BigUint &= skips normalisation when it truncates', 'needs an owned longer left operand whose digit under the other top digit ANDs to zero', '', ['C04'], ''),
 'C05I': ('C05', 'monty_modpow returns the reduced base when it is zero', 'needs odd modulus, base longer than and divisible by the modulus, exponent 0', '', ['C05'], ''),
 'C05J': ('C05', 'modinv multiplies two u64-sized coefficients without widening', 'needs a modulus of about 2^56 or more (coefficient product >= 2^64)', '', ['C05'], ''),
 'C06I': ('C06', 'to_radix_digits_le takes big_power from the digit length of big_base', 'needs >= 81 words and a radix whose per-word base is short (24, 31, ...)', '', ['C06'], ''),
 'C06J': ('C06', 'BigInt from_str_radix sets the sign after From<BigUint>', 'needs "-0" / "-000": negative zero', '', ['C06'], ''),
 'C07I': ('C07', 'same as C04I (written independently)', 'see C04I', '', ['C07'], ''),
 'C07J': ('C07', 'negative-shift check of >> demoted to debug_assert!', 'needs release and a negative multiple of 64 (or any negative amount on zero)', '--release', ['C07'], ''),
 'C08I': ('C08', 'owned TryFrom<BigInt> for BigUint returns the magnitude in the error', 'needs BigUint::try_from(negative BigInt) and a look at into_original()', '', ['C08'],
          'MISSED by C08 at first (the big-to-big TryFrom pair was only exercised under C19): now part of the C08 conversion command'),
 'C08J': ('C08', 'two-digit shortcut in to_f64 rounds twice', 'needs exactly two 64-bit digits with the bits below the 53rd near one half', '', ['C08'], ''),
 'C09I': ('C09', 'U32Digits::fold override emits the high half of a half-consumed last digit', 'needs a fold-based consumer (fold, for_each, sum, max) on an iterator drained to zero items without having returned None',
          '', ['C09'], 'MISSED at first: the iterator driver only had next / next_back / nth / len / size_hint / last / count; fold, rfold, collect, rev().collect, sum, for_each-by-ref and nth_back added to the exhaustive call sequences'),
 'C09J': ('C09', 'whole-byte fast path of from_bitwise_digits_le shifts the overlap by the wrong amount', 'needs byte import of >= 9 bytes with len % 8 not in {0, 4}', '', ['C09'], ''),
 'C10I': ('C10', 'BigUint += &BigUint with a shorter left operand loses the carry out of the top', 'needs an accumulating form, shorter left operand and all-ones high digits on the right', '', ['C10'], ''),
 'C10J': ('C10', 'u64 - BigUint one-digit arm uses the machine subtraction (variant of C01H)', 'needs release and a larger one-digit BigUint', '--release', ['C10'], ''),
 'C11I': ('C11', 'fixpoint leaves the climb after saturating with a stale step', 'needs std, nth_root with a large degree relative to the root (n >= 24, root <= 60)', '', ['C11'], ''),
 'C11J': ('C11', 'BigInt::nth_root returns 0 and 1 before the degree check', 'needs BigInt 0 or 1 with n = 0: returns instead of panicking', '', ['C11'], ''),
 'C12I': ('C12', 'BigInt ^ BigUint keeps the base sign when the exponent does not fit u64', 'needs base -1 and an even BigUint exponent >= 2^64', '', ['C12'], ''),
 'C12J': ('C12', 'pow strips low zero digits of the base and carries a stale counter', 'needs a base that is a multiple of 2^64 and an even exponent that is not a power of two', '', ['C12'], ''),
 'C13I': ('C13', 'gcd decides the swap from length and leading digit only', 'needs multi-digit operands sharing length and leading digit: underflow panic', '', ['C13'], ''),
 'C13J': ('C13', 'gcd_lcm divisibility shortcut returns `other` in both directions', 'needs gcd_lcm (not lcm) with the second operand a proper divisor of the first', '', ['C13'], ''),
 'C14I': ('C14', 'gen_bigint_range no longer checks the upper-bound-zero branch', 'needs rand and an inverted range (l > 0, u = 0)', '--features rand', ['C14', 'C18'], ''),
 'C14J': ('C14', 'BigInt % i128 uses abs() instead of unsigned_abs()', 'needs overflow checks and the divisor exactly i128::MIN', '', ['C14'], ''),
 'C15I': ('C15', 'x86 narrow path in div_rem_digit divides by b as u32 for b = 2^32', 'needs a one-digit divisor of exactly 2^32: #DE / SIGFPE', '', ['C15'], ''),
 'C15J': ('C15', 'to_radix_digits_le writes through a raw cursor and the no_std size estimate became a lower bound', 'needs the library built without std and a non-power-of-two radix: heap write past the buffer, values correct',
          '--no-default-features', ['C15'], 'MISSED at first: every guard-allocator build had the std feature on; a `guard-nostd-rel` variant and stage (text, radix conversion, add/sub sweep, gen_biguint) added'),
 'C16I': ('C16', 'set_negative_bit mask rewritten as (1 << n) - 1', 'needs a negative value whose lowest set bit is the top bit of a digit: debug panics, release wrong value', '', ['C16'], ''),
 'C16J': ('C16', 'to_f32 / to_f64 use exp2()', 'needs a build without std: does not compile', '--no-default-features', ['C16'], ''),
 'C17I': ('C17', 'visitor counts all-zero digits and forgets to flush them before an odd tail', 'needs an odd-length u32 sequence whose 64-bit digit below the last element is zero (2^64)', '--features serde', ['C17'], ''),
 'C17J': ('C17', 'Deserialize for BigInt asks for a seq instead of a 2-tuple', 'needs a non-self-describing format (bincode-like): nothing written by Serialize can be read back', '--features serde', ['C17'],
          'MISSED at first: the token-replay Deserializer is self-describing; a strict untagged, length-prefixing reader now reads back every recorded serialisation and must consume exactly what was written'),
 'C18I': ('C18', 'gen_bits computes data.len() - 1 outside the rem > 0 guard', 'needs bit size 0 and overflow checks', '--features rand', ['C18'], ''),
 'C18J': ('C18', 'gen_biguint_below takes the candidate width from bound - 1', 'needs a power-of-two bound', '--features rand', ['C18'], ''),
 'C19I': ('C19', 'abs() shortcut through to_i128', 'needs x = -2^127', '', ['C19'], ''),
 'C19J': ('C19', 'BigInt::assign_from_slice tests slice.last() for zero up front', 'needs a Plus/Minus request with a non-zero slice whose top u32 is zero', '', ['C19'],
          'MISSED by C19 at first (new / from_slice / assign_from_slice were only exercised under C09): now in the C19 workload with every requested sign and padded slices'),
 'C20I': ('C20', 'long multiplication beyond 256 digits when std is off', 'needs --no-default-features: schoolbook cost above 256 digits', 'RUSTFLAGS="--cfg num_bigint_verif" --no-default-features', ['C20'],
          'MISSED at first: the work counter was only read in std builds; a nostd-rel stage added'),
 'C20J': ('C20', 'pow does one wasted squaring after the last exponent bit', 'needs the product requested as pow(a, 2): four times the cost, above the quarter-of-schoolbook bound at 4096 digits', 'RUSTFLAGS="--cfg num_bigint_verif"', ['C20'],
          'MISSED at first: only &a * &b and x *= &b were measured; the product is now also requested through val/ref forms, checked_mul, BigInt, Product and pow(a, 2) in four spellings'),
}
for sid, (prop, what, needs, flags, caught, note) in M5.items():
    d = os.path.join(V, 'seeded', sid)
    if not os.path.isdir(d):
        continue
    meta = {
        'id': sid, 'round': 5, 'breaks_property': prop, 'change': what, 'needs_to_manifest': needs,
        'origin': 'fresh fifth-round sub-agent given the property text, its own scratch worktree and the list of earlier ideas to avoid (nothing from /verif)',
        'confirmed_by_me': {'how': 'tools/confirm_seed.sh %s %s' % (sid, flags), 'result': 'clean_demo=PASS suite_with_patch=PASS demo_with_patch=FAIL'},
        'demo_flags': flags, 'detected_by_quick_checks': caught, 'note': note,
        'how_run_against_checks': 'tools/trymut.sh %s seeded/%s/patch.diff quick %s' % (sid, sid, ' '.join(caught)),
    }
    json.dump(meta, open(os.path.join(d, 'meta.json'), 'w'), indent=1)
print(len(M5), 'round-5 meta files written')

ADD6 = 'caught only with a workload family added while the round-6 reports came in'
M6 = {
 'C01K': ('C01', 'BigInt -= &BigInt in-place fast path decides "not smaller" by length and top digit with >=', 'needs the compound form, same sign and digit count >= 2, identical top digit, |x| < |y|', '', ['C01'], ''),
 'C01L': ('C01', 'BigInt + u128 negative fast path through a shared i128 helper', 'needs a negative value fitting 128 bits plus a u128 where exactly one of the two is >= 2^127', '', ['C01'], ''),
 'C02K': ('C02', 'two-digit multiplier fast path keeps one carry bit too few', 'needs a two-digit factor and digit patterns from {0,1,2,MAX-1,MAX,2^63,2^32}', '', ['C02'], ''),
 'C02L': ('C02', 'Toom-3 exact division by three inside debug_assert_eq!', 'needs release and a product reaching Toom-3', '--release', ['C02'], ''),
 'C03K': ('C03', '"quotient of one" early return admits u_top == 2*d_top', 'needs same digit count, dividend top digit exactly twice the divisor top digit, u >= 2d', '', ['C03'], ''),
 'C03L': ('C03', 'Knuth D loop exits when the current window is zero', 'needs the partial remainder to vanish for >= len(d) digits while the low part is still >= d', '', ['C03'], ADD6 + ' (vanishing-remainder family) or coinciding with it'),
 'C04K': ('C04', 'owned BigUint - BigUint reuses the roomier buffer without normalising', 'needs by-value forms, a subtrahend with spare capacity from its history, same digit count, cancelling top digits', '', ['C04'], ''),
 'C04L': ('C04', 'lt/le/gt/ge overridden with a least-significant-first tie-break', 'needs the relational operators (not cmp) on values with >= 3 digits and equal top digit', '', ['C04'], ''),
 'C05K': ('C05', 'power-of-two modulus fast path masks the top digit with (1 << (bits % 64)) - 1', 'needs modulus exactly 2^64, 2^128, ...', '', ['C05'], ''),
 'C05L': ('C05', 'one-word Montgomery fast path overflows its u128 sum', 'needs an odd one-digit modulus above about 0.618 * 2^64', '', ['C05'], ''),
 'C06K': ('C06', 'FromStr for BigUint folds up to 20 decimal digits into a u64', 'needs the FromStr route and a 20-digit value >= 2^64', '', ['C06'], ''),
 'C06L': ('C06', 'BigInt formatting helper ignores + when no width is given', 'needs {:+}-style specs without a width on a non-negative BigInt', '', ['C06'], ''),
 'C07K': ('C07', 'shr_round_down inspects only the dropped digits, wrong for whole-digit shifts', 'needs a negative value shifted by a multiple of 64 equal to its zero digits', '', ['C07'], ''),
 'C07L': ('C07', 'BigInt::bit single-digit fast path truncates the index to u32', 'needs |x| < 2^64 and a bit index >= 2^32 whose low 32 bits are < 64', '', ['C07'], ADD6 + ' (bit indices 2^32, 2^32+63, 2^40, 2^63 ...)'),
 'C08K': ('C08', 'to_isize override casts the usize value', 'needs a BigUint in [2^63, 2^64) converted to isize', '', ['C08'], ''),
 'C08L': ('C08', 'debug_assert in the owned TryFrom<BigInt> error arm forgets negative values', 'needs debug assertions, an unsigned target and a small negative value', '', ['C08'], ''),
 'C09K': ('C09', 'assign_from_slice in-place fast path ignores the odd top word', 'needs a receiver of exactly k digits and a slice of 2k+1 words', '', ['C09'], 'MISSED at first: assign_from_slice was only called on a 20-digit receiver; receivers at, just below and just above the denoted length added'),
 'C09L': ('C09', 'ToBytes::to_ne_bytes override returns no bytes for zero', 'needs the provided trait method on a zero BigUint', '', ['C09'], ADD6 + ' (to_ne_bytes / from_ne_bytes for both types)'),
 'C10K': ('C10', 'power-of-two fast path in Pow multiplies the exponent in its own narrow type', 'needs u8/u16 exponents and a power-of-two base >= 4', '', ['C10'], ''),
 'C10L': ('C10', 'owning div_rem strips shared low zero digits and shifts the remainder back by bits instead of digits', 'needs by-value % with dividend and divisor sharing whole zero digits and a non-zero remainder', '', ['C10'], 'MISSED by C10 at first (C03 had just gained the family): the shared-low-zeros / small-quotient / vanishing-remainder operands now go through every form in C10 too'),
 'C11K': ('C11', 'fixpoint descent capped at 1024 rounds', 'needs a degree in the thousands with the root well above 2', '', ['C11'], 'MISSED at first: degrees 1500..9000 with roots 3..70000 added'),
 'C11L': ('C11', 'sqrt returns the f64 root when it is integral and the input converted without loss', 'needs std and x = r^2 - 1 with r = 2^k + 1 (few significant bits)', '', ['C11'], 'MISSED at first: (2^k + 1)^n - 1 / (3*2^k + 1)^n - 1 family for k = 31..53 added'),
 'C12K': ('C12', 'small-result fast path with inclusive bounds: (2^32)^4 and (2^16)^8 overflow u128', 'needs exactly those base / exponent pairs', '', ['C12'], ADD6 + ' (special-value bases with exponents 4 and 8)'),
 'C12L': ('C12', 'by-reference Pow<&BigUint> shares a helper whose contract is base >= 2', 'needs base 0 by reference and a BigUint exponent >= 2^128', '', ['C12'], ''),
 'C13K': ('C13', 'prev_multiple_of power-of-two fast path shifts by the digit width', 'needs a BigUint divisor of exactly 2^(64k)', '', ['C13'], ''),
 'C13L': ('C13', 'BigInt inc/dec ripple uses += instead of wrapping_add', 'needs overflow checks and a magnitude whose low digit is u64::MAX', '', ['C13'], ''),
 'C14K': ('C14', 'u64 - BigUint one-digit arm uses the machine subtraction (third independent rediscovery)', 'needs release', '--release', ['C14'], ''),
 'C14L': ('C14', 'shift-amount splitting shared by << and >> panics on huge right shifts', 'needs >> by a u128/i128 amount >= 2^70', '', ['C14'], ''),
 'C15K': ('C15', 'Karatsuba scratch buffer re-exposed with set_len after normalize shrank it', 'needs two Karatsuba levels and a zero run in the second quarter of both operands: writes past the allocation', '', ['C15'], ''),
 'C15L': ('C15', 'single-digit-modulus modpow fast path reaches the hardware div with hi >= divisor', 'needs a one-digit modulus and a large one-digit base: SIGFPE', '', ['C15'], ADD6 + ' (a modpow / modinv slice under the guard allocator)'),
 'C16K': ('C16', 'no_std size estimate shared between two callers + one-digit parse fast path', 'needs no_std and a 20-21 digit decimal (41-63 digit ternary ...) string', '--no-default-features', ['C16'], ''),
 'C16L': ('C16', 'std forwards to serde?/std and the visitor is replaced by Vec<u32>::deserialize', 'needs --no-default-features --features serde: does not compile', '--no-default-features --features serde', ['C16'], ''),
 'C17K': ('C17', 'single-digit fast path serializes [lo, hi] as a fixed-size array (tuple)', 'needs a value in [2^32, 2^64)', '--features serde', ['C17'], ''),
 'C17L': ('C17', 'Sign deserialization by biased table lookup overflows at 127', 'needs sign byte 127 and overflow checks', '--features serde', ['C17'], ''),
 'C18K': ('C18', 'sample_single fast path for symmetric power-of-two ranges uses gen_bigint', 'needs gen_range / sample_single on [-2^k, 2^k)', '--features rand', ['C18'], ADD6 + ' (ranges symmetric around zero with power-of-two bounds)'),
 'C18L': ('C18', 'range width computed in i64 when both ends fit', 'needs overflow checks and a range with both ends in i64 and width >= 2^63', '--features rand', ['C18'], ADD6 + ' (ranges whose ends fit i64 / i128 but whose width does not)'),
 'C19K': ('C19', 'BigInt::new canonicalises through IntDigits::normalize', 'needs BigInt::new(NoSign, non-zero digits)', '', ['C19'], ''),
 'C19L': ('C19', 'ToBigInt for BigUint tests capacity() == 0 instead of is_zero()', 'needs a zero that still owns a buffer (x - x, x % x, set_zero, new(vec![0]))', '', ['C19'],
          'MISSED at first (twice: my first addition built its zero through += / -=, which shrinks the buffer): zeros reached by ten routes now go through to_bigint / From / from_biguint'),
 'C20K': ('C20', 'surplus digits of the longer operand multiplied row by row', 'needs about-equal but unequal lengths (n x 1.05n .. 1.5n)', 'RUSTFLAGS="--cfg num_bigint_verif"', ['C20'], ADD6 + ' (n x 1.05n, 1.25n, 1.45n series under the doubling and quarter clauses)'),
 'C20L': ('C20', 'schoolbook cross-check compiled in with the arbitrary / quickcheck features', 'needs one of those features', 'RUSTFLAGS="--cfg num_bigint_verif" --features arbitrary', ['C20'], ''),
}
for sid, (prop, what, needs, flags, caught, note) in M6.items():
    d = os.path.join(V, 'seeded', sid)
    if not os.path.isdir(d):
        continue
    meta = {
        'id': sid, 'round': 6, 'breaks_property': prop, 'change': what, 'needs_to_manifest': needs,
        'origin': 'fresh sixth-round sub-agent given the property text, its own scratch worktree and the list of earlier ideas to avoid (nothing from /verif); asked to prefer changes that ADD code',
        'confirmed_by_me': {'how': 'tools/confirm_seed.sh %s %s' % (sid, flags), 'result': 'clean_demo=PASS suite_with_patch=PASS demo_with_patch=FAIL'},
        'demo_flags': flags, 'detected_by_quick_checks': caught, 'note': note,
        'how_run_against_checks': 'tools/trymut.sh %s seeded/%s/patch.diff quick %s' % (sid, sid, ' '.join(caught)),
    }
    json.dump(meta, open(os.path.join(d, 'meta.json'), 'w'), indent=1)
print(len(M6), 'round-6 meta files written')

M7 = {
 'C09M': ('C09', 'BigInt::assign_from_slice recomputes the sign only when the requested sign differs', 'needs a non-zero receiver re-assigned with the same sign from a slice denoting zero', '', ['C09'], ''),
 'C09N': ('C09', 'U32Digits::last peeks instead of calling next_back', 'needs an odd number of u32 digits, the iterator drained from the front, then last()', '', ['C09'], ''),
 'C10M': ('C10', 'i64 / BigInt returns 0 when the divisor has more than 63 bits', 'needs the scalar exactly i64::MIN and the divisor exactly +-2^63', '', ['C10'], ''),
 'C10N': ('C10', 'BigInt += u64/u128 in-place fast path for negative multi-digit values', 'needs += with a u128 above u64::MAX and a negative two-digit value of magnitude <= the scalar', '', ['C10'], ''),
 'C11M': ('C11', 'BigInt::nth_root word-sized fast path casts the root to i64', 'needs degree 1 and 2^63 <= |x| < 2^64', '', ['C11'], ''),
 'C11N': ('C11', 'sqrt descent stops after a unit step', 'needs x = (r+1)^2 - 1 with r >= 2^53 and an f64 guess of r+2', '', ['C11'], ''),
 'C15M': ('C15', 'gen_biguint no longer zeroes its buffer (with_capacity + set_len)', 'needs rand, bits mod 64 in 1..=32 and a recycled non-zero heap block: uninitialised memory in the value', '--features rand', ['C15'], 'reported by valgrind memcheck (use of uninitialised value); the guard allocator hands out zero pages and cannot see it'),
 'C15N': ('C15', 'BigInt::to_str_radix maps digits with a branchless formula wrong for digits >= 20', 'needs radix >= 21: invalid UTF-8 through from_utf8_unchecked', '', ['C15'], ''),
 'C17M': ('C17', 'declared sequence length computed as bits()/32 + 1', 'needs a bit length that is a multiple of 32', '--features serde', ['C17'], ''),
 'C17N': ('C17', 'visitor trusts an odd size hint to detect the tail', 'needs a SeqAccess whose hint is odd and smaller than the element count', '--features serde', ['C17'], ''),
 'C18M': ('C18', 'sample_single_inclusive override widens the upper end on the magnitude', 'needs gen_range(low..=high) on BigInt with a negative upper end', '--features rand', ['C18'], ''),
 'C18N': ('C18', 'gen_biguint_below compares candidate and bound by digit count and leading digit only', 'needs a multi-digit bound and a candidate sharing its leading digit', '--features rand', ['C18'], ''),
 'C19M': ('C19', 'abs_sub returns self when the subtrahend is zero', 'needs a negative x and y = 0', '', ['C19'], ''),
 'C19N': ('C19', 'BigUint::set_one overwrites the low digit in place, no arm for an empty vector', 'needs set_one on a zero receiver', '', ['C19'], ''),
 'C20M': ('C20', 'one of the five Toom-3 sub-products done by long multiplication', 'needs operands above 256 digits: doubling ratio 3.6-3.9', 'RUSTFLAGS="--cfg num_bigint_verif"', ['C20'], ''),
 'C20N': ('C20', 'Karatsuba middle product by long multiplication in the Minus arm', 'needs halves ordered oppositely in the two factors', 'RUSTFLAGS="--cfg num_bigint_verif"', ['C20'], 'caught at 1024 -> 2048 digits with ratio 3.165 (limit 3.1) on the dense operands; rising x falling digit patterns from 256 digits added for margin'),
}
for sid, (prop, what, needs, flags, caught, note) in M7.items():
    d = os.path.join(V, 'seeded', sid)
    if not os.path.isdir(d):
        continue
    meta = {
        'id': sid, 'round': 7, 'breaks_property': prop, 'change': what, 'needs_to_manifest': needs,
        'origin': 'fresh seventh-round sub-agent (reduced round: 8 properties) given the property text, its own scratch worktree and the list of earlier ideas to avoid (nothing from /verif)',
        'confirmed_by_me': {'how': 'tools/confirm_seed.sh %s %s' % (sid, flags), 'result': 'clean_demo=PASS suite_with_patch=PASS demo_with_patch=FAIL'},
        'demo_flags': flags, 'detected_by_quick_checks': caught, 'note': note,
        'how_run_against_checks': 'tools/trymut.sh %s seeded/%s/patch.diff quick %s' % (sid, sid, ' '.join(caught)),
    }
    json.dump(meta, open(os.path.join(d, 'meta.json'), 'w'), indent=1)
print(len(M7), 'round-7 meta files written')
