#!/usr/bin/env python3
import json, os
V = os.path.dirname(os.path.dirname(os.path.abspath(__file__)))
M = {
 'C01A': ('C01', 'add_assign with a shorter left operand extends before adding: carry lands one digit too low', 'needs `+=`/val-ref form with self shorter than other, a carry out of the common low part and all-ones high digits of the longer operand (e.g. 1 += 2^128-1); ref-ref form unaffected', '', ['C01']),
 'C01B': ('C01', '`&a - b` (ref-val) passes a truncated slice to sub2rev so a longer subtrahend is not detected', 'needs the &BigUint - BigUint form, a<b, b longer than a and low digits of b <= a (no borrow), e.g. &5 - (2^64+3) returns instead of panicking', '', ['C01', 'C10', 'C14']),
 'C02A': ('C02', 'Karatsuba Plus-arm temporary resized to j0.len+j1.len instead of len', 'needs shorter operand 66..256 digits, half-differences of equal sign, odd length > 32 with all-ones top halves, e.g. ((B^k-1)B^k+1)^2 for odd k 33..127: panic in add2/sub2', '', ['C02', 'C14']),
 'C02B': ('C02', 'mac_digit folds the row carry into a_hi[0]/a_hi[1] without rippling further', 'needs Karatsuba regime, opposite-sign half differences (accumulating into populated acc) and an all-ones digit above the bumped one (digit-aligned 0/MAX block operands): silently wrong product', '', ['C02']),
 'C03A': ('C03', 'div_rem_core a0==b0 branch uses a0+a2 instead of a0+a1', 'needs multi-digit divisor, a step with top remainder digit == divisor top digit, a2 << a1 and b1 > b0 (constructed input, ~2^-64 on random digits)', '', ['C03']),
 'C03B': ('C03', 'BigInt::div_rem_euclid fix-up keyed on sign of dividend instead of sign of remainder', 'needs div_rem_euclid / checked_div_rem_euclid with a negative dividend that is an exact multiple of the divisor: returns (q-+1, |b|)', '', ['C03']),
 'C04A': ('C04', 'BigInt |= drops normalize() in the (Minus, Plus) arm', 'needs negative left operand longer than one digit whose magnitude shrinks (e.g. -(2^64) | (2^64-1) = -1 with digits [1,0])', '', ['C04', 'C07']),
 'C04B': ('C04', 'BigInt::set_bit normalises only when clearing', 'needs a negative value of magnitude exactly 2^(64k) and set_bit(i,true) below the lowest set bit', '', ['C04', 'C07']),
 'C05A': ('C05', 'Montgomery sub_vv derives the borrow from xi-yi without the incoming borrow', 'needs odd modulus >= 3 digits, the overflow branch of montgomery() and a middle digit of the intermediate equal to the modulus digit with a borrow coming in (e.g. m = 2^192-1, bases just below m, exponent 2)', '', ['C05']),
 'C05B': ('C05', 'plain_modpow squares u32::BITS instead of BITS times per skipped zero exponent digit', 'needs even modulus and exponent >= 2^64 with zero low 64-bit digit(s)', '', ['C05']),
 'C06A': ('C06', 'from_inexact_bitwise_digits_le returns BigUint{data} without normalising', 'needs radix 8/32/64/128 input whose bits above the last complete 64-bit word are zero (e.g. 22 octal digits with top digit 0/1, leading zeros crossing a word)', '', ['C06', 'C04']),
 'C06B': ('C06', 'BigInt Octal formatter passes is_positive() instead of !is_negative()', 'needs BigInt zero formatted with {:o}/{:#o}/{:+o}: "-0"', '', ['C06']),
 'C07A': ('C07', 'bitand_neg_neg stops the high-digit loop when carry_a == 0 ignoring carry_and', 'needs both operands negative with unequal digit lengths and bit-disjoint low twos-complement digits', '', ['C07']),
 'C07B': ('C07', 'shr_round_down treats a shift amount that does not fit u64 as "no rounding"', 'needs negative BigInt >> u128/i128 amount > u64::MAX: 0 instead of -1', '', ['C07']),
 'C08A': ('C08', 'high_bits_to_u64 breaks out of the digit loop once bits_want == 0', 'needs >= 3-4 digit value whose top bits are an exact tie and whose only deciding 1-bit is two or more digits below the window', '', ['C08']),
 'C08B': ('C08', 'BigInt::to_i64 Minus arm off by one (accepts -(2^63+1))', 'needs exactly i64::MIN - 1 (also isize, TryFrom)', '', ['C08']),
 'C09A': ('C09', 'U32Digits::next_back forgets to reset next_is_lo when it hits exhaustion', 'needs mixed-direction iteration: next() took the low half of the last digit, next_back() hits exhaustion, then len()/size_hint()/count() underflow', '', ['C09']),
 'C09B': ('C09', 'to_signed_bytes_be exception test ignores lower digits', 'needs negative value with > 1 digit, top byte 0x80, rest of top digit zero and a non-zero lower digit, e.g. -(2^71+1)', '', ['C09']),
 'C10A': ('C10', 'sub2rev no longer checks the surplus high digits of the subtrahend', 'needs scalar - BigUint or &BigUint - BigUint with the right operand longer and non-borrowing low digits', '', ['C10', 'C14']),
 'C10B': ('C10', 'Pow<&BigUint> for BigUint tests is_zero before exp.is_zero: 0^0 = 0', 'needs base 0 by value, BigUint exponent 0', '', ['C10', 'C12']),
 'C11A': ('C11', 'BigUint::sqrt returns the scaled guess directly when trailing_zeros >= scale (std only)', 'needs x >= 2^1024 with only the top ~1023 bits non-zero and a non-square shifted value, std feature', '', ['C11']),
 'C11B': ('C11', 'BigInt::sqrt negativity assert downgraded to debug_assert', 'needs release build, negative value, the sqrt entry point (nth_root(2) still panics)', '--release', ['C11', 'C14']),
 'C12A': ('C12', 'same reorder as C10B (0^0 with BigUint exponent, by-value base)', 'needs base 0 by value, BigUint exponent 0', '', ['C12', 'C10']),
 'C12B': ('C12', 'power-of-two fast path computes the shift in the exponent type', 'needs base an exact power of two (not 1/2), u8/u16 exponent and k >= 256 or k*(e-1) overflowing the type', '', ['C12']),
 'C13A': ('C13', 'gcd reduces lopsided operands (m %= n) before measuring the common power of two', 'needs lengths differing by >= 2 digits, the shorter operand even and dividing the longer exactly', '', ['C13']),
 'C13B': ('C13', 'is_multiple_of early reject compares Option<u64> trailing zeros (None < Some)', 'needs receiver exactly 0 and non-zero argument', '', ['C13']),
 'C14A': ('C14', 'sub2rev underflow check inspects only the lowest surplus digit', 'needs &BigUint - BigUint / scalar - BigUint with subtrahend >= 2 digits longer, zero digit just above the minuend length, no borrow', '', ['C14', 'C10']),
 'C14B': ('C14', 'monty_modpow pads rr only when empty', 'needs odd modulus >= 2 digits with 2^(128 len) mod m shorter than m (2^k - c moduli): double panic -> SIGABRT', '', ['C14', 'C05']),
 'C15A': ('C15', 'sub2 passes b.len() instead of min(a.len,b.len) to the asm loop', 'needs BigUint underflow path with 5*floor(b.len/5) > a.len: heap overflow by the asm loop', '', ['C15', 'C14']),
 'C15B': ('C15', 'gen_biguint under-sizes its u64 buffer (len/2 + (rem>0))', 'needs rand feature and bit_size % 64 == 32', '--features rand', ['C15', 'C18']),
 'C16A': ('C16', 'no_std-only scaled initial guess in nth_root without the guard', 'needs a build without std, nth_root(n) with n > 64 and ceil((bits-64)/n)*n >= bits: divide by zero panic', '--no-default-features', ['C16', 'C11']),
 'C16B': ('C16', 'Rem<i64> for BigInt uses abs() instead of unsigned_abs()', 'needs debug profile and scalar exactly i64::MIN / isize::MIN: overflow panic in debug only', '(debug profile)', ['C16', 'C10', 'C14']),
 'C17A': ('C17', 'serializer emits the high half when leading_zeros <= 32', 'needs serde feature and bit length = 32 mod 64: trailing zero u32 digit and length one too large', '--features serde', ['C17']),
 'C17B': ('C17', 'BigInt deserialize no longer clears the magnitude for sign 0', 'needs serde feature and input (0, non-zero digits)', '--features serde', ['C17', 'C04']),
 'C18A': ('C18', 'gen_bigint_range negates the sample when ubound == 0', 'needs rand feature, BigInt range with upper bound exactly 0 and an accepted candidate 0', '--features rand', ['C18']),
 'C18B': ('C18', 'UniformBigInt::new_inclusive calls new(low, high) before widening', 'needs rand feature, inclusive BigInt range with low == high: panics', '--features rand', ['C18', 'C14']),
 'C19A': ('C19', 'abs_sub uses a hand-written comparison that is wrong for two negatives', 'needs both operands negative with different magnitudes', '', ['C19']),
 'C19B': ('C19', 'Sign * Sign: equal-signs arm first so NoSign*NoSign = Plus', 'needs direct Sign*Sign with both NoSign', '', ['C19']),
 'C20A': ('C20', 'Toom-3 part size y.len()/2+1 instead of /3+1', 'needs shorter operand > 256 digits; products stay correct, cost becomes quadratic', 'RUSTFLAGS="--cfg num_bigint_verif"', ['C20']),
 'C20B': ('C20', 'mul3 feeds factors longer than 4096 digits through in 4096-digit blocks', 'needs the longer factor > 4096 digits; only the 8192 and 16384 grid points expose it', 'RUSTFLAGS="--cfg num_bigint_verif"', ['C20']),
}
for sid, (prop, what, needs, flags, caught) in M.items():
    d = os.path.join(V, 'seeded', sid)
    meta = {
        'id': sid, 'breaks_property': prop, 'change': what, 'needs_to_manifest': needs,
        'origin': 'fresh sub-agent given only the property text and a scratch worktree (nothing from /verif)',
        'confirmed_by_me': {
            'how': 'tools/confirm_seed.sh %s %s (scratch worktree of /repo HEAD: demo passes on the unchanged tree; with the patch the full existing suite `cargo test --offline` passes and the demo fails)' % (sid, flags),
            'result': 'clean_demo=PASS suite_with_patch=PASS demo_with_patch=FAIL',
        },
        'demo_flags': flags,
        'detected_by_quick_checks': caught,
        'how_run_against_checks': 'tools/trymut.sh %s seeded/%s/patch.diff quick %s (scratch worktree + shadow driver; /repo untouched)' % (sid, sid, ' '.join(caught)),
    }
    json.dump(meta, open(os.path.join(d, 'meta.json'), 'w'), indent=1)
print(len(M), 'meta files written')
