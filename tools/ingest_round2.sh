#!/bin/bash
# usage: ingest_round2.sh Cxx "<demo flags for A>" "<demo flags for B>" [extra checks...]
# copies a second-round sub-agent's deliverables into seeded/CxxC, seeded/CxxD, confirms them independently and
# runs the property's own quick check (plus extra checks) against each.
p=$1; fa="$2"; fb="$3"; shift 3
for pair in A:C:"$fa" B:D:"$fb"; do
  src=${pair%%:*}; rest=${pair#*:}; dst=${rest%%:*}; flags=${rest#*:}
  d=/verif/seeded/${p}${dst}
  mkdir -p $d
  cp /tmp/wt/$p/_out/patch$src.diff $d/patch.diff || continue
  cp /tmp/wt/$p/_out/demo$src.rs $d/demo.rs
  cp /tmp/wt/$p/_out/notes.md $d/agent_notes.md 2>/dev/null
  /verif/tools/confirm_seed.sh ${p}${dst} $flags 2>&1 | grep CONFIRM
  /verif/tools/trymut.sh ${p}${dst} $d/patch.diff quick $p "$@" 2>&1 | grep MUT
done
