#!/usr/bin/env python3
"""Entry point of the runtime-monitoring checks.

  check.py run <PROP> [--tier quick|thorough] [--seed N]
  check.py replay <replay-file>
  check.py setup

Exit codes: 0 held on everything observed; 1 violation (prints VIOLATION lines);
2 inconclusive (watchdog, tool failure, coverage floor missed) - never reported as a violation.
"""
import argparse, importlib, json, os, re, sys, time

sys.path.insert(0, os.path.dirname(os.path.abspath(__file__)))
from nbv import build, runner
from nbv.core import VERIF, OUT, Problem

PROPS = ['C%02d' % i for i in range(1, 21)]


def load(prop):
    return importlib.import_module('nbv.props.' + prop.lower())


def load_known():
    p = os.path.join(VERIF, 'known_findings.json')
    if not os.path.exists(p):
        return []
    return json.load(open(p)).get('findings', [])


def match_known(pr, prop, known):
    for k in known:
        if k.get('status') != 'known' or k.get('property') != prop:
            continue
        if re.search(k['cmd_regex'], pr.cmd or '') and re.search(k.get('what_regex', ''), pr.what):
            return k
    return None


waived = set()
floors_missed_modified = set()
_baseline = {}


def _tree_is_baseline():
    """True iff /repo's sources are the tree the coverage floors were calibrated on (baseline_tree.json), or no
    baseline is recorded"""
    if 'v' not in _baseline:
        try:
            want = json.load(open(os.path.join(VERIF, 'baseline_tree.json')))['tree_hash']
            _baseline['v'] = (want == build.tree_hash())
        except (OSError, ValueError, KeyError):
            _baseline['v'] = True
    return _baseline['v']


_site_cache = {}


def _probe_site_exists(name):
    """True iff /repo's current sources still contain a `verif_probe!(<name>)` site"""
    if name not in _site_cache:
        import re
        from nbv import build as _b
        pat = re.compile(r'verif_probe!\(\s*%s\s*\)' % re.escape(name))
        found = False
        for root, _, files in os.walk(os.path.join(_b.REPO, 'src')):
            for f in files:
                if f.endswith('.rs'):
                    try:
                        if pat.search(open(os.path.join(root, f)).read()):
                            found = True
                    except OSError:
                        pass
        _site_cache[name] = found
    return _site_cache[name]


def _run_one_stage(prop, mod, st, only_stage, quiet, total, stage_info, inconclusive, group_of):
    if only_stage and st['label'] != only_stage:
        return
    label = st['label']
    if 'custom' in st:
        # stage that is not a driver run (e.g. the build matrix of C16)
        sr = st['custom']()
    else:
        try:
            if (st.get('tool') or '').startswith('miri:'):
                build.ensure_miri(st['tool'][5:])
                binary = 'miri'
            else:
                binary = build.ensure_built(st['variant'])
        except build.BuildError as e:
            # only a rustc failure on the library itself says something about the configuration; cargo failing for any other
            # reason (lock, disk, manifest) or the driver crate failing is a harness problem
            if st.get('build_failure_is_violation') and 'could not compile `num-bigint`' in e.log:
                pr = Problem({prop}, 'configuration does not build: ' + st['variant'], e.first_error())
                pr.cmd = 'build ' + st['variant']
                pr.variant = st['variant']
                total.problems.append(pr)
            else:
                inconclusive.append('variant %s does not build: %s' % (st['variant'], e.first_error()))
            return
        groups = st['groups']
        for g in groups:
            if len(g) > 1:
                for c in g:
                    group_of[id(c)] = g
        sr = runner.run_stage(st['variant'], groups, tool=st.get('tool'), prefix=st.get('prefix'),
                              env=st.get('env'), timeout=st.get('timeout', 600), binary=binary, mem=st.get('mem', 'default'), keep_raw=st.get('keep_raw', False), shard_min=st.get('shard_min', 200))
        if st.get('post'):
            st['post'](sr)
    if not quiet:
        print('[%s] stage %-22s variant=%-10s tool=%-8s cmds=%d events=%d evals=%d cells=%d problems=%d %.1fs' % (
            prop, label, st.get('variant'), st.get('tool'), sum(len(g) for g in st.get('groups', [])), sr.events,
            sr.evaluations, len(sr.cells), len(sr.problems), sr.wall), file=sys.stderr)
    stage_info.append({'label': label, 'variant': st.get('variant'), 'tool': st.get('tool'),
                       'events': sr.events, 'evaluations': sr.evaluations, 'wall_s': round(sr.wall, 2)})
    # coverage floors are per stage when the stage names them
    for name in st.get('floors', []):
        if sr.probes.get(name, 0) == 0:
            if not _probe_site_exists(name):
                # the branch this floor stands for is no longer in the source (e.g. a refactor removed the path):
                # nothing to reach, so nothing is missed.  Recorded in the evidence.
                waived.add(name)
                continue
            if not _tree_is_baseline():
                # the floors are tied to the branch structure of the tree they were calibrated on; on a modified tree a
                # branch may legitimately have become unreachable, so a miss there says nothing about the property
                floors_missed_modified.add('%s:%s' % (label, name))
                continue
            inconclusive.append('coverage floor missed in stage %s: probe %s was never hit' % (label, name))
    total.merge(sr)


def run_property(prop, tier, seed, only_stage=None, quiet=False):
    mod = load(prop)
    t0 = time.time()
    known = load_known()
    # thorough tier: repeat the whole staged workload over several derived seeds (bounded memory: one at a time)
    nrep = getattr(mod, 'THOROUGH_SEEDS', 1) if tier == 'thorough' else 1
    seeds = [seed + 104729 * i for i in range(nrep)]
    total = runner.StageResult()
    stage_info = []
    inconclusive = []
    group_of = {}
    for sd in seeds:
        for st in mod.stages(tier, sd):
            if nrep > 1:
                st['label'] = '%s@%d' % (st['label'], sd)
            # run immediately so that the next seed's workload is generated only after this one is released
            yield_stage = st
            _run_one_stage(prop, mod, yield_stage, only_stage, quiet, total, stage_info, inconclusive, group_of)
            st.pop('groups', None)
    inconclusive += total.inconclusive

    mine, foreign, knownhits = [], [], []
    for pr in total.problems:
        if prop in pr.props:
            k = match_known(pr, prop, known)
            if k:
                knownhits.append((k, pr))
            else:
                mine.append(pr)
        elif 'HARNESS' in pr.props:
            inconclusive.append('harness problem: %s %s' % (pr.what, pr.cmd))
        else:
            foreign.append(pr)

    wall = time.time() - t0
    ev = {
        'property_id': prop, 'tier': tier, 'seed': seed, 'level': 'exploration',
        'coverage': {
            'evaluations': total.evaluations,
            'distinct_nontrivial': len(total.cells),
            'rule': getattr(mod, 'RULE', ''),
            'samples': total.samples[:6] or [{'note': 'no samples'}],
            'exhaustive': False,
            'probes_hit': dict(sorted(total.probes.items())),
            'stages': stage_info,
            'tree_hash': build.tree_hash(),
            'seeds': seeds,
            'tool_reports': total.tool_reports,
            'foreign_observations': sorted({'%s: %s' % (','.join(sorted(p.props)), p.what) for p in foreign})[:20],
            'known_findings_seen': sorted({k['id'] for k, _ in knownhits}),
            'inconclusive': inconclusive[:20],
            'floors_waived_site_absent': sorted(waived),
            'tree_is_calibration_baseline': _tree_is_baseline(),
            'floors_not_reached_on_modified_tree': sorted(floors_missed_modified),
        },
        'assumptions': getattr(mod, 'ASSUMPTIONS', []),
        'wall_s': round(wall, 2),
        'violations': len(mine),
    }
    extra = getattr(mod, 'evidence_extra', None)
    if extra:
        ev['coverage'].update(extra())
    evdir = os.environ.get('NBV_EVIDENCE_DIR') or os.path.join(VERIF, 'evidence')
    os.makedirs(evdir, exist_ok=True)
    with open(os.path.join(evdir, prop + '.json'), 'w') as f:
        json.dump(ev, f, indent=1, default=str)

    seen = set()
    for k, pr in knownhits:
        if k['id'] not in seen:
            seen.add(k['id'])
            print('KNOWN-FINDING: property=%s %s' % (prop, k['description']))
    if mine:
        os.makedirs(os.path.join(OUT, 'replays'), exist_ok=True)
        # one replay file per distinct (what, first token of cmd); cap the number written
        written = 0
        seen_sig = set()
        for pr in mine:
            sig = (pr.what, (pr.cmd or '').split(' ')[0], pr.variant)
            if sig in seen_sig:
                continue
            seen_sig.add(sig)
            if written >= 12:
                break
            path = os.path.join(OUT, 'replays', '%s-%s-%d-%d.json' % (prop, tier, seed, written))
            lines = [pr.cmd]
            rep = {'property': prop, 'tier': tier, 'seed': seed, 'variant': pr.variant, 'what': pr.what,
                   'detail': pr.detail, 'cmd': pr.cmd, 'props': sorted(pr.props)}
            with open(path, 'w') as f:
                json.dump(rep, f, indent=1)
            print('VIOLATION property=%s replay=%s' % (prop, path))
            print('  %s | %s | %s | %s' % (pr.variant, pr.what, (pr.cmd or '')[:200], (pr.detail or '')[:300]))
            written += 1
        print('[%s] %d violation(s) (%d distinct kinds) in %.1fs' % (prop, len(mine), len(seen_sig), wall), file=sys.stderr)
        return 1
    if inconclusive:
        for r in inconclusive[:10]:
            print('INCONCLUSIVE property=%s reason=%s' % (prop, r))
        return 2
    if floors_missed_modified:
        print('[%s] note: on this modified tree the workload did not reach %s (coverage floors are calibrated on the baseline tree; '
              'recorded in the evidence, not a verdict)' % (prop, ', '.join(sorted(floors_missed_modified))), file=sys.stderr)
    if not quiet:
        print('[%s] held on %d evaluations, %d distinct non-trivial cells, %.1fs' % (prop, total.evaluations, len(total.cells), wall), file=sys.stderr)
    return 0


def replay(path):
    rep = json.load(open(path))
    prop, tier, seed = rep['property'], rep['tier'], rep['seed']
    mod = load(prop)
    variant = rep['variant'].split('+')[0]
    tool = rep['variant'].split('+')[1] if '+' in rep['variant'] else None
    target = rep['cmd']
    print('replaying %s (%s, %s): %s' % (prop, variant, tool, target[:200]))
    for st in mod.stages(tier, seed):
        if 'groups' not in st or st['variant'] != variant or st.get('tool') != tool:
            continue
        for g in st['groups']:
            if any(c.line == target for c in g):
                sr = runner.run_stage(variant, [g], tool=tool, prefix=st.get('prefix'), env=st.get('env'), jobs=1)
                hits = [p for p in sr.problems if prop in p.props]
                for p in hits:
                    print('  reproduced: %s | %s | %s' % (p.what, p.cmd[:200], p.detail[:300]))
                if not hits:
                    print('  not reproduced')
                return 1 if hits else 0
    print('command not found in regenerated workload')
    return 2


def main():
    ap = argparse.ArgumentParser()
    sub = ap.add_subparsers(dest='cmd')
    r = sub.add_parser('run')
    r.add_argument('prop')
    r.add_argument('--tier', default=os.environ.get('VERIF_TIER', 'quick'))
    r.add_argument('--seed', type=int, default=int(os.environ.get('VERIF_SEED', '1')))
    r.add_argument('--stage', default=None)
    rp = sub.add_parser('replay')
    rp.add_argument('path')
    sub.add_parser('setup')
    sub.add_parser('baseline')
    a = ap.parse_args()
    if a.cmd == 'run':
        tier = a.tier if a.tier in ('quick', 'thorough') else 'quick'
        sys.exit(run_property(a.prop, tier, a.seed, only_stage=a.stage))
    if a.cmd == 'replay':
        sys.exit(replay(a.path))
    if a.cmd == 'setup':
        from nbv import setup
        sys.exit(setup.main())
    if a.cmd == 'baseline':
        # record the tree the coverage floors are calibrated on (run after a hook / fix commit to /repo)
        import subprocess
        head = subprocess.run(['git', '-C', build.REPO, 'rev-parse', 'HEAD'], stdout=subprocess.PIPE, text=True).stdout.strip()
        json.dump({'tree_hash': build.tree_hash(), 'repo_head': head,
                   'note': 'sha256 prefix over /repo/src/** and Cargo.toml (nbv.build.tree_hash); coverage floors are strict only on this tree'},
                  open(os.path.join(VERIF, 'baseline_tree.json'), 'w'), indent=1)
        print('baseline recorded:', build.tree_hash(), head)
        sys.exit(0)
    ap.print_help()
    sys.exit(2)


if __name__ == '__main__':
    main()
