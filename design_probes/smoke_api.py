import random, subprocess, sys, math, struct
rnd = random.Random(int(sys.argv[2]) if len(sys.argv)>2 else 1)
B=64
def rdig(n, kind):
    if n==0: return 0
    if kind==0: v=rnd.getrandbits(B*n)
    elif kind==1: v=(1<<(B*n))-1
    elif kind==2: v=1<<(B*n-1)
    elif kind==3: v=((1<<(B*n))-1) ^ ((1<<(B*rnd.randrange(n)))-1)
    elif kind==4:
        v=0
        for i in range(n): v|= rnd.choice([0,0,(1<<B)-1,1,1<<63,rnd.getrandbits(B)])<<(B*i)
    elif kind==5: v=1<<rnd.randrange(B*n)
    elif kind==6: v=(1<<rnd.randrange(1,B*n+1))-1
    else: v=rnd.getrandbits(B*n) | (1<<(B*n-1))
    return v
def rval(maxn=12, signed=True):
    n=rnd.choice([0,1,1,2,3,4,5,6,rnd.randrange(maxn+1)])
    v=rdig(n, rnd.randrange(8))
    if rnd.random()<0.3: v=max(0,v+rnd.choice([-2,-1,1,2]))
    if signed and rnd.random()<0.5: v=-v
    return v
def hx(v): return ('-' if v<0 else '')+format(abs(v),'x')
def ob(b): return "true" if b else "false"
def tdivmod(a,b):
    q=abs(a)//abs(b); r=abs(a)%abs(b)
    if (a<0)!=(b<0): q=-q
    if a<0: r=-r
    return q,r
DIG="0123456789abcdefghijklmnopqrstuvwxyz"
def tostr(v,r):
    s=""; x=abs(v)
    while x: s=DIG[x%r]+s; x//=r
    return ("-" if v<0 else "")+(s or "0")
def parse_model(s, radix, signed):
    # returns int or None
    neg=False
    if signed and s.startswith('-'):
        t=s[1:]
        if not t.startswith('+'): s=t; neg=True
        else: return None
    if s.startswith('+'):
        t=s[1:]
        if not t.startswith('+'): s=t
    if s=="" : return None
    if s.startswith('_'): return None
    v=0
    for ch in s:
        if ch=='_': continue
        c=ch.lower()
        if c in DIG and ch.isascii() and DIG.index(c)<radix: v=v*radix+DIG.index(c)
        else: return None
    return -v if neg else v
def pad_integral(nonneg, prefix, digits, plus, alt, zero, width, fill, align):
    sign = "" if nonneg and not plus else ("+" if nonneg else "-")
    pre = prefix if alt else ""
    body=sign+pre+digits
    if width is None or len(body)>=width: return body
    pad=width-len(body)
    if zero: return sign+pre+"0"*pad+digits
    if align=='<': return body+fill*pad
    if align=='^': return fill*(pad//2)+body+fill*(pad-pad//2)
    return fill*pad+body
def sbytes(v):
    n=1
    while True:
        try: return v.to_bytes(n,'big',signed=True)
        except OverflowError: n+=1
def popc(x): return bin(x).count('1')
def trailing_ones(x):
    n=0
    while x&1: x>>=1; n+=1
    return n
def rng_types():
    return [("i8",-128,127),("u8",0,255),("i16",-2**15,2**15-1),("u16",0,2**16-1),("i32",-2**31,2**31-1),("u32",0,2**32-1),("i64",-2**63,2**63-1),("u64",0,2**64-1),("i128",-2**127,2**127-1),("u128",0,2**128-1),("isize",-2**63,2**63-1),("usize",0,2**64-1)]
def oo(v): return "none" if v is None else str(v)
def egcd(a,b):
    return math.gcd(a,b)
cases=[]; N=int(sys.argv[1])
for i in range(N):
    op=rnd.choice(["parse","str","radixle","fromradix","fmt","sbytes","fromsbytes","bitq","not","shifts","conv","uconv","fromf64","fromf32","gcdfam","mult","powbig","sign","divall","bitops"])
    if op=="parse":
        radix=rnd.randrange(2,37)
        alpha=DIG[:radix]+DIG[:radix].upper()
        body="".join(rnd.choice(alpha+"_") for _ in range(rnd.choice([0,1,2,3,20,21,41,70,130])))
        if rnd.random()<0.6 and body.startswith('_'): body=rnd.choice(alpha)+body
        s=rnd.choice(["","","","+","-","-","+-","-+","++","--"])+body
        if rnd.random()<0.1: s=s+rnd.choice([DIG[radix] if radix<36 else "{"," ","é","\x00"])
        cases.append((op,[radix,s]))
    elif op in("str","radixle"):
        radix=rnd.randrange(2,37) if op=="str" else rnd.randrange(2,257)
        v=rval(80) if rnd.random()<0.8 else (radix**rnd.randrange(1,300)+rnd.choice([-1,0,1]))*rnd.choice([1,-1])
        cases.append((op,[radix,v]))
    elif op=="fromradix":
        radix=rnd.randrange(2,257); n=rnd.choice([0,1,2,5,20,40,41,64,100,300])
        d=[rnd.randrange(radix) for _ in range(n)]
        if rnd.random()<0.1 and n and radix<256: d[rnd.randrange(n)]=radix
        if rnd.random()<0.2: d=[0]*rnd.randrange(5)+d
        cases.append((op,[radix,d,rnd.choice(["be","le"])]))
    elif op=="fmt": cases.append((op,[rval(6) if rnd.random()<0.7 else rval(1), rnd.randrange(0,45)]))
    elif op=="sbytes":
        k=rnd.randrange(1,30); v=rnd.choice([rval(6), (1<<(8*k-1))+rnd.choice([-1,0,1]), -((1<<(8*k-1))+rnd.choice([-1,0,1])), -(1<<rnd.randrange(200))])
        cases.append((op,[v]))
    elif op=="fromsbytes":
        n=rnd.randrange(0,30); b=bytes(rnd.getrandbits(8) for _ in range(n))
        if rnd.random()<0.4: b=bytes([rnd.choice([0,255])]*rnd.randrange(1,10))+b
        cases.append((op,[b]))
    elif op=="bitq":
        v=rval(6); 
        if rnd.random()<0.5 and v!=0: v=v<<rnd.randrange(0,200)
        tz=(abs(v)&-abs(v)).bit_length()-1 if v else 0
        k=rnd.choice([0,1,63,64,65,tz,max(tz-1,0),tz+1,abs(v).bit_length(),abs(v).bit_length()-1 if v else 0,abs(v).bit_length()+1,rnd.randrange(500),64*((abs(v).bit_length()+63)//64),64*((abs(v).bit_length()+63)//64)-1])
        cases.append((op,[v,max(k,0)]))
    elif op=="not": cases.append((op,[rval(6)]))
    elif op=="shifts":
        v=rval(6)
        if rnd.random()<0.5 and v!=0: v=v<<rnd.randrange(0,200)
        tz=(abs(v)&-abs(v)).bit_length()-1 if v else 0
        k=rnd.choice([0,1,63,64,65,128,tz,max(tz-1,0),tz+1,rnd.randrange(600),abs(v).bit_length(),abs(v).bit_length()+1])
        cases.append((op,[v,k]))
    elif op in("conv","uconv"):
        t=rnd.choice(rng_types()); v=rnd.choice([t[1],t[2]])+rnd.choice([-2,-1,0,1,2]) if rnd.random()<0.7 else rval(4)
        cases.append((op,[v]))
    elif op=="fromf64":
        bits=rnd.choice([rnd.getrandbits(64), (rnd.randrange(1023-2,1023+1100)<<52)|rnd.getrandbits(52)|(rnd.getrandbits(1)<<63), 0,1<<63,0x7ff0<<48,0xfff0<<48,0x7ff8<<48, rnd.getrandbits(52)])
        cases.append((op,[bits]))
    elif op=="fromf32":
        bits=rnd.choice([rnd.getrandbits(32), (rnd.randrange(125,255)<<23)|rnd.getrandbits(23)|(rnd.getrandbits(1)<<31), 0,1<<31,0x7f800000,0xff800000,0x7fc00000])
        cases.append((op,[bits]))
    elif op=="gcdfam":
        g=abs(rval(3,False)); a=g*rval(3)<<rnd.choice([0,1,63,64,65,130]); b=g*rval(3)<<rnd.choice([0,1,63,64,65,130])
        cases.append((op,[a,b]))
    elif op=="mult":
        a=rval(5); b=rval(3)
        if b==0: b=3
        cases.append((op,[a,b]))
    elif op=="powbig": cases.append((op,[rnd.choice([0,1,-1,2,-2,3,-7,rval(2)]), rnd.randrange(0,60)]))
    elif op=="sign": cases.append((op,[rval(5),rval(5)]))
    elif op=="divall":
        a=rval(12); b=rval(5)
        if rnd.random()<0.3: b=rval(1)
        if b==0: b=1
        cases.append((op,[a,b]))
    elif op=="bitops":
        a=rval(6); b=rval(6)
        if rnd.random()<0.3: b=rnd.choice([a,-a,~a,a+1,a-1,-a-1])
        cases.append((op,[a,b]))
def enc(op,args):
    if op=="parse": return f"parse {args[0]} {args[1].encode().hex() or '-'}"
    if op in("str","radixle"): return f"{op} {args[0]} {hx(args[1])}"
    if op=="fromradix": return f"fromradix{args[2]} {args[0]} {bytes(min(x,255) for x in args[1]).hex() or '-'}"
    if op=="fmt": return f"fmt {hx(args[0])} {args[1]}"
    if op=="fromsbytes": return f"fromsbytes {args[0].hex() or '-'}"
    if op in("fromf64",): return f"{op} {args[0]:016x}"
    if op in("fromf32",): return f"{op} {args[0]:08x}"
    if op in("bitq","shifts"): return f"{op} {hx(args[0])} {args[1]}"
    return op+" "+" ".join(hx(x) for x in args)
def conv1(v,lo,hi): return oo(v if lo<=v<=hi else None)
def expect(op,args):
    a=args[0]
    if op=="parse":
        radix,s=args; x=parse_model(s,radix,True); y=parse_model(s,radix,False)
        return f"{hx(x) if x is not None else 'err'} {hx(y) if y is not None else 'err'}"
    if op=="str": return tostr(args[1],args[0])
    if op=="radixle":
        r,v=args; v=abs(v); d=[]
        while v: d.append(v%r); v//=r
        return bytes(d or [0]).hex()
    if op=="fromradix":
        r,d,e=args
        if any(x>=r for x in d): return "none"
        v=0
        for x in (d if e=="be" else reversed(d)): v=v*r+x
        return '"'+hx(v)+'"'
    if op=="fmt":
        v,w=args; nn=v>=0; m=abs(v)
        P=lambda prefix,digits,plus=False,alt=False,zero=False,width=None,fill=' ',align='>': pad_integral(nn,prefix,digits,plus,alt,zero,width,fill,align)
        o1=[P("",str(m)),P("",str(m),plus=True),P("0x",format(m,'x'),alt=True),P("0x",format(m,'X'),alt=True),P("",str(m),zero=True,width=w),P("0b",format(m,'b'),plus=True,alt=True,zero=True,width=w),P("0o",format(m,'o'),plus=True,alt=True,width=w,fill='*',align='^'),P("",str(m),width=w,align='<'),P("0x",format(m,'x'),width=w,align='>'),P("0x",format(m,'X'),alt=True,width=w,align='^'),P("0x",format(m,'x'),alt=True,zero=True,width=w),P("",str(m))]
        nn=True
        o2=[P("",str(m)),P("",str(m),plus=True),P("0x",format(m,'x'),alt=True),P("",str(m),zero=True,width=w),P("0o",format(m,'o'),plus=True,alt=True,width=w,fill='*',align='^'),P("0b",format(m,'b'),width=w,align='<')]
        return ",".join(o1)+"|"+",".join(o2)
    if op=="sbytes":
        sb=sbytes(a); m=abs(a); mb=m.to_bytes(max(1,(m.bit_length()+7)//8),'big')
        return f"{sb.hex()} {sb[::-1].hex()} {mb.hex()}"
    if op=="fromsbytes":
        b=a; return f"{hx(int.from_bytes(b,'big',signed=True))} {hx(int.from_bytes(b,'big',signed=True))} {hx(int.from_bytes(b,'big'))}"
    if op=="bitq":
        v,k=args; m=abs(v); tz=(m&-m).bit_length()-1 if m else None
        return f"{ob((v>>k)&1)} {hx(v|(1<<k))} {hx(v&~(1<<k))} {m.bit_length()} {'None' if tz is None else 'Some(%d)'%tz} {trailing_ones(m)} {popc(m)} {ob((m>>k)&1)} {hx(m|(1<<k))} {hx(m&~(1<<k))}"
    if op=="not": return f"{hx(~a)} {hx(~a)}"
    if op=="shifts":
        v,k=args; return f"{hx(v>>k)} {hx(v>>k)} {hx(v>>k)} {hx(v<<k)} {hx(v<<k)} {hx(abs(v)>>k)}"
    if op=="conv":
        T=dict((n,(lo,hi)) for n,lo,hi in rng_types())
        r=" ".join(conv1(a,*T[n]) for n in ["i8","u8","i16","u16","i32","u32","i64","u64","i128","u128","isize","usize"])
        return r+" "+(str(a) if -2**63<=a<2**63 else "E"+hx(a))
    if op=="uconv":
        T=dict((n,(lo,hi)) for n,lo,hi in rng_types()); m=abs(a)
        return " ".join(conv1(m,*T[n]) for n in ["i8","u8","i32","u32","i64","u64","i128","u128"])
    if op=="fromf64":
        f=struct.unpack('>d',struct.pack('>Q',a))[0]
        if f!=f or f in(float('inf'),float('-inf')): return "none none"
        v=int(f); return f'"{hx(v)}" '+("none" if v<0 else f'"{hx(v)}"')
    if op=="fromf32":
        f=struct.unpack('>f',struct.pack('>I',a))[0]
        if f!=f or f in(float('inf'),float('-inf')): return "none none"
        v=int(f); return f'"{hx(v)}" '+("none" if v<0 else f'"{hx(v)}"')
    if op=="gcdfam":
        a,b=args; g=math.gcd(a,b); l=abs(a*b)//g if g else 0
        return ("G",g,l)
    if op=="mult":
        a,b=args; m=a%b; nx=a if m==0 else a+(b-m); pv=a-m
        ua,ub=abs(a),abs(b); um=ua%ub
        return f"{hx(nx)} {hx(pv)} {hx(ua if um==0 else ua+ub-um)} {hx(ua-um)}"
    if op=="powbig": return hx(args[0]**args[1])
    if op=="sign":
        a,b=args; return f"{hx(-a)} {hx(abs(a))} {hx((a>0)-(a<0))} {ob(a>0)} {ob(a<0)} {hx(max(a-b,0))} "+("none" if a<0 else f'"{hx(a)}"')
    if op=="divall":
        a,b=args; q1,r1=tdivmod(a,b); q2,r2=divmod(a,b); r3=a%abs(b); q3=(a-r3)//b; qc=-((-a)//b)
        return " ".join(hx(x) for x in [q1,r1,q2,r2,q3,r3,qc,q1,r1,q2,r2,q3,r3])
    if op=="bitops":
        a,b=args; return " ".join(hx(x) for x in [a&b,a|b,a^b,a&b,a|b,a^b])
inp="\n".join(enc(op,args) for op,args in cases)+"\n"
for binpath in ["/root/scratch/probe/target/release/probe","/root/scratch/probe/target/debug/probe"]:
    out=subprocess.run([binpath],input=inp.encode(),capture_output=True).stdout.decode().split("\n")
    bad=0; shown={}
    for (op,args),got in zip(cases,out):
        exp=expect(op,args)
        ok = exp==got
        if isinstance(exp,tuple):
            _,g,l=exp; t=got.split(' ')
            if got=="PANIC": ok=False
            else:
                a,b=args; pg=lambda s:int(s,16)
                ok = pg(t[0])==g and pg(t[1])==l and pg(t[2])==g and a*pg(t[3])+b*pg(t[4])==g and pg(t[5])==g and pg(t[6])==l and pg(t[7])==g and pg(t[8])==l and pg(t[9])==g and pg(t[10])==l and t[11]==ob((a%b==0) if b else a==0)
        if not ok:
            bad+=1; shown[op]=shown.get(op,0)+1
            if shown[op]<=3: print("MISMATCH",binpath.split('/')[-2],enc(op,args)[:150],"\n   got",got[:300],"\n   exp",str(exp)[:300])
    print(binpath.split('/')[-2],"cases",len(cases),"bad",bad,shown)
