import random, subprocess
rnd=random.Random(7); B=1<<64
lines=[]; exp=[]
def hx(v): return format(v,'x')
# add-back family
for _ in range(200):
    n=rnd.randrange(3,7)
    v=rnd.getrandbits(64*n)|(1<<(64*n-1))|((1<<64)-1)   # normalized, low digit all ones
    Q=rnd.getrandbits(64*rnd.randrange(1,4))|1
    q0=Q&(B-1); v0=v&(B-1)
    k=rnd.randrange(1,(q0+1)*v0+1) if rnd.random()<0.5 else rnd.randrange(1,1<<rnd.randrange(1,60))
    a=(Q+1)*v-k
    lines.append(f"div {hx(a)} {hx(v)}"); exp.append(f"{hx(a//v)} {hx(a%v)}")
# unnormalised divisor variants (shift != 0)
for _ in range(200):
    n=rnd.randrange(3,7); sh=rnd.randrange(1,64)
    v=(rnd.getrandbits(64*n)|(1<<(64*n-1))|((1<<64)-1))>>sh
    v|= (1<<(64-sh))-1 if sh<64 else 0
    Q=rnd.getrandbits(64*rnd.randrange(1,4))|1
    k=rnd.randrange(1,1<<rnd.randrange(1,60))
    a=(Q+1)*v-k
    if a>0: lines.append(f"div {hx(a)} {hx(v)}"); exp.append(f"{hx(a//v)} {hx(a%v)}")
# a0==b0 family
for _ in range(200):
    n=rnd.randrange(2,6); j=rnd.randrange(1,4)
    v=rnd.getrandbits(64*n)|(1<<(64*n-1))
    k=rnd.randrange(1,1<<rnd.randrange(1,64*(n-1)))
    a=v*(B**j)-k
    lines.append(f"div {hx(a)} {hx(v)}"); exp.append(f"{hx(a//v)} {hx(a%v)}")
# monty family: top digit tiny / huge, base >= m same length
for _ in range(300):
    n=rnd.randrange(1,6)
    top=rnd.choice([1,2,3,(1<<64)-1,(1<<63),rnd.getrandbits(64)|1])
    m=(top<<(64*(n-1)))|rnd.getrandbits(64*(n-1))|1
    b=rnd.choice([rnd.getrandbits(64*n), (1<<(64*n))-1, m+1, m-1, rnd.getrandbits(64*(n+2))])
    e=rnd.choice([0,1,2,3,rnd.getrandbits(70),1<<64,(1<<64)-1, 0xf0f0f0f0, 1<<200])
    lines.append(f"modpow {hx(b)} {hx(e)} {hx(m)}"); exp.append(hx(pow(b,e,m)))
p=subprocess.run(["/root/scratch/probe/target/release/probe"],input=("\n".join(lines)+"\n").encode(),capture_output=True)
out=p.stdout.decode().split("\n")
bad=sum(1 for a,b in zip(exp,out) if a!=b)
print("cases",len(lines),"bad",bad); print(p.stderr.decode().strip())
