import random, subprocess, sys, math, struct
rnd = random.Random(int(sys.argv[2]) if len(sys.argv)>2 else 1)
B=64
def rdig(n, kind):
    if n==0: return 0
    if kind==0: v=rnd.getrandbits(B*n)
    elif kind==1: v=(1<<(B*n))-1
    elif kind==2: v=1<<(B*n-1)
    elif kind==3: v=((1<<(B*n))-1) ^ ((1<<(B*rnd.randrange(n)))-1)  # high ones, low zeros
    elif kind==4:
        v=0
        for i in range(n):
            v|= rnd.choice([0,0,(1<<B)-1,1,1<<63,rnd.getrandbits(B)])<<(B*i)
    else: v=rnd.getrandbits(B*n) | (1<<(B*n-1))
    return v
def rval(maxn=40, signed=True):
    n=rnd.choice([0,1,1,2,3,4,5,6,9,10,11,rnd.randrange(maxn+1)])
    v=rdig(n, rnd.randrange(6))
    if signed and rnd.random()<0.5: v=-v
    return v
def hx(v): return ('-' if v<0 else '')+format(abs(v),'x')
def tdivmod(a,b):
    q=abs(a)//abs(b); r=abs(a)%abs(b)
    if (a<0)!=(b<0): q=-q
    if a<0: r=-r
    return q,r
def iroot(x,n):
    if x<2: return x
    lo,hi=1,1<<(x.bit_length()//n+1)
    while lo<hi:
        mid=(lo+hi+1)//2
        if mid**n<=x: lo=mid
        else: hi=mid-1
    return lo
def to_float_bits(v, mant, emax, width):
    # round-half-even int -> float bits
    s = 1 if v<0 else 0; v=abs(v)
    if v==0: return s<<(width-1)
    bl=v.bit_length()
    if bl>mant:
        sh=bl-mant; q=v>>sh; rem=v&((1<<sh)-1); half=1<<(sh-1)
        if rem>half or (rem==half and (q&1)): q+=1
        if q>>mant: q>>=1; sh+=1
        e=sh+mant-1
    else:
        q=v<<(mant-bl); e=bl-1
    if e>emax: # inf
        expbits=width-mant; return (s<<(width-1))|(((1<<expbits)-1)<<(mant-1))
    bias=emax
    return (s<<(width-1))|((e+bias)<<(mant-1))|(q&((1<<(mant-1))-1))
cases=[]; N=int(sys.argv[1])
for i in range(N):
    op=rnd.choice(["add","sub","mul","mul","divrem","divrem","divmodfloor","modpow","gcd","sqrt","cbrt","nthroot","and","or","xor","shl","shr","dec","r7","f64","f32","pow","modinv","bigmul","addback"])
    if op in("add","sub","and","or","xor","gcd"): a,b=rval(),rval(); cases.append((op,[a,b]))
    elif op=="mul": a,b=rval(80),rval(80); cases.append((op,[a,b]))
    elif op=="bigmul":
        la=rnd.choice([33,40,64,65,100,256,257,258,300,520]); lb=rnd.choice([la,la+1,2*la-1,2*la,2*la+1,la//2+1, 3*la])
        a=rdig(la,rnd.randrange(6)); b=rdig(lb,rnd.randrange(6)); cases.append(("mul",[a,b]))
    elif op in("divrem","divmodfloor"):
        a,b=rval(40),rval(12)
        if b==0: b=1
        cases.append((op,[a,b]))
    elif op=="addback":
        v=rdig(rnd.randrange(3,8),5); q=rdig(rnd.randrange(1,4),rnd.choice([0,1])); k=rnd.randrange(1,1<<rnd.randrange(1,64))
        a=(q+1)*v-k
        if a>0: cases.append(("divrem",[a,v]))
    elif op=="modpow":
        a=rval(8); e=abs(rval(3)); m=rval(8)
        if m==0: m=3
        cases.append((op,[a,e,m]))
    elif op=="modinv":
        a=rval(6); m=rval(6)
        if m==0: m=7
        cases.append((op,[a,m]))
    elif op in("sqrt","cbrt"):
        a=abs(rval(40,False)); 
        if rnd.random()<0.3: r=abs(rval(10,False)); a=r**(2 if op=="sqrt" else 3)+rnd.choice([-1,0,1]); a=max(a,0)
        cases.append((op,[a]))
    elif op=="nthroot":
        a=abs(rval(30,False)); n=rnd.choice([1,2,3,4,5,7,10,64,100,1000]); cases.append((op,[a,n]))
    elif op in("shl","shr"): cases.append((op,[rval(),rnd.choice([0,1,63,64,65,128,rnd.randrange(700)])]))
    elif op in("dec","r7"): cases.append((op,[rval(200)]))
    elif op in("f64","f32"):
        a=rval(20)
        if rnd.random()<0.5:
            m=53 if op=="f64" else 24
            top=rnd.getrandbits(m)|(1<<(m-1)); k=rnd.randrange(1,900 if op=="f64" else 110)
            a=(top<<k)+ (1<<(k-1)) + rnd.choice([0,0,1,-1, 1<<rnd.randrange(k)]) 
        cases.append((op,[a]))
    elif op=="pow": cases.append((op,[rval(3),rnd.randrange(40)]))
inp="\n".join(op+" "+" ".join(hx(x) for x in args) for op,args in cases)+"\n"
for binpath in ["/root/scratch/probe/target/release/probe","/root/scratch/probe/target/debug/probe"]:
    out=subprocess.run([binpath],input=inp.encode(),capture_output=True).stdout.decode().split("\n")
    bad=0
    for (op,args),got in zip(cases,out):
        a=args[0]; b=args[1] if len(args)>1 else None
        try:
            if op=="add": exp=hx(a+b)
            elif op=="sub": exp=hx(a-b)
            elif op=="mul": exp=hx(a*b)
            elif op=="divrem": q,r=tdivmod(a,b); exp=hx(q)+" "+hx(r)
            elif op=="divmodfloor": q,r=divmod(a,b); exp=hx(q)+" "+hx(r)
            elif op=="modpow":
                r=pow(a,b,abs(args[2])); 
                r = r % args[2]
                exp=hx(r)
            elif op=="modinv":
                m=b
                if math.gcd(a,m)!=1: exp="none"
                else: exp=hx(pow(a,-1,abs(m)) % m) if abs(m)!=1 else hx(0)
            elif op=="gcd": exp=hx(math.gcd(a,b))
            elif op=="sqrt": exp=hx(math.isqrt(a))
            elif op=="cbrt": exp=hx(iroot(a,3))
            elif op=="nthroot": exp=hx(iroot(a,b))
            elif op=="and": exp=hx(a&b)
            elif op=="or": exp=hx(a|b)
            elif op=="xor": exp=hx(a^b)
            elif op=="shl": exp=hx(a<<b)
            elif op=="shr": exp=hx(a>>b)
            elif op=="dec": exp=str(a)
            elif op=="r7":
                v=abs(a); s=""
                while v: s="0123456"[v%7]+s; v//=7
                exp=("-" if a<0 else "")+(s or "0")
            elif op=="f64": exp=format(to_float_bits(a,53,1023,64),'016x')
            elif op=="f32": exp=format(to_float_bits(a,24,127,32),'08x')
            elif op=="pow": exp=hx(a**b)
        except Exception as e:
            exp="EXC "+repr(e)
        if exp!=got:
            bad+=1
            if bad<6: print("MISMATCH",binpath.split('/')[-2],op,[hx(x)[:80] for x in args],"got",got[:100],"exp",exp[:100])
    print(binpath.split('/')[-2],"cases",len(cases),"bad",bad)
