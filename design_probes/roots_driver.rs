use num_bigint::*;
use std::io::{self, BufRead, Write};
use std::panic::{catch_unwind, AssertUnwindSafe};
fn main(){
    std::panic::set_hook(Box::new(|_|{}));
    let stdin=io::stdin(); let out=io::stdout(); let mut out=io::BufWriter::new(out.lock());
    for line in stdin.lock().lines(){
        let line=line.unwrap(); let t:Vec<&str>=line.split(' ').collect();
        let r = catch_unwind(AssertUnwindSafe(|| -> String {
            let a=BigUint::parse_bytes(t[1].as_bytes(),16).unwrap(); let n:u32=t[2].parse().unwrap();
            a.nth_root(n).to_str_radix(16)
        }));
        match r { Ok(s)=>writeln!(out,"{}",s).unwrap(), Err(_)=>writeln!(out,"PANIC").unwrap() }
    }
}
