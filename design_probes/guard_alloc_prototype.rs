// Design-phase feasibility probe (NOT part of the machinery): guard-page global allocator.
// Result in the sandbox: 40,832 allocations while running add/sub/mul over (len a, len b) in
// [0,64)^2 took 0.27 s; a read one element past a Vec<u64> faults with SIGSEGV (exit 139).
use num_bigint::*;
use std::alloc::{GlobalAlloc, Layout, System};
use std::sync::atomic::{AtomicU8, AtomicUsize, Ordering::*};

extern "C" {
    fn mmap(addr: *mut u8, len: usize, prot: i32, flags: i32, fd: i32, off: i64) -> *mut u8;
    fn mprotect(addr: *mut u8, len: usize, prot: i32) -> i32;
}
const PROT_NONE: i32 = 0;
const PROT_RW: i32 = 3;
const MAP_PRIVATE: i32 = 2;
const MAP_ANON: i32 = 0x20;
const MAP_NORESERVE: i32 = 0x4000;
const PAGE: usize = 4096;
const ARENA: usize = 64 << 30;

struct Guard;
static MODE: AtomicU8 = AtomicU8::new(0);
static BASE: AtomicUsize = AtomicUsize::new(0);
static NEXT: AtomicUsize = AtomicUsize::new(0);
static NALLOC: AtomicUsize = AtomicUsize::new(0);

unsafe impl GlobalAlloc for Guard {
    unsafe fn alloc(&self, l: Layout) -> *mut u8 {
        if MODE.load(Relaxed) == 0 || l.size() == 0 {
            return System.alloc(l);
        }
        let pages = (l.size() + PAGE - 1) / PAGE;
        let span = (pages + 1) * PAGE; // + trailing guard page (stays PROT_NONE)
        let off = NEXT.fetch_add(span, Relaxed);
        if off + span > ARENA {
            return std::ptr::null_mut();
        }
        let start = (BASE.load(Relaxed) + off) as *mut u8;
        if mprotect(start, pages * PAGE, PROT_RW) != 0 {
            return std::ptr::null_mut();
        }
        NALLOC.fetch_add(1, Relaxed);
        let end = start as usize + pages * PAGE;
        ((end - l.size()) & !(l.align() - 1)) as *mut u8 // block ends at the guard page
    }
    unsafe fn dealloc(&self, p: *mut u8, l: Layout) {
        let b = BASE.load(Relaxed);
        let a = p as usize;
        if b != 0 && a >= b && a < b + ARENA {
            let start = a & !(PAGE - 1);
            let pages = ((a - start) + l.size() + PAGE - 1) / PAGE;
            mprotect(start as *mut u8, pages * PAGE, PROT_NONE); // use-after-free faults too
        } else {
            System.dealloc(p, l)
        }
    }
}
#[global_allocator]
static G: Guard = Guard;

fn main() {
    unsafe {
        let b = mmap(std::ptr::null_mut(), ARENA, PROT_NONE, MAP_PRIVATE | MAP_ANON | MAP_NORESERVE, -1, 0);
        assert!(b as isize != -1);
        BASE.store(b as usize, Relaxed);
    }
    MODE.store(1, Relaxed);
    let t = std::time::Instant::now();
    let mut acc = 0u64;
    for la in 0..64usize {
        for lb in 0..64usize {
            let a = BigUint::new(vec![u32::MAX; 2 * la]).clone();
            let b = BigUint::new(vec![u32::MAX; 2 * lb]).clone();
            acc ^= (&a + &b).bits();
            if a >= b {
                acc ^= (&a - &b).bits();
            }
            acc ^= (&a * &b).bits();
        }
    }
    MODE.store(0, Relaxed);
    println!("ok acc={} allocs={} time={:?}", acc, NALLOC.load(Relaxed), t.elapsed());
    if std::env::args().len() > 1 {
        MODE.store(1, Relaxed);
        let v: Vec<u64> = vec![1, 2, 3];
        let x = unsafe { std::ptr::read_volatile(v.as_ptr().add(3)) }; // must SIGSEGV
        println!("unexpected: read {}", x);
    }
}
