use num_bigint::*;
use num_integer::*;
use num_traits::*;
use std::io::{self, BufRead, Write};
use std::panic::{catch_unwind, AssertUnwindSafe};
use std::convert::TryFrom;
fn pi(s:&str)->BigInt{ let (neg,h)= if let Some(r)=s.strip_prefix('-'){(true,r)}else{(false,s)}; 
   let mut bytes=vec![]; let h= if h.len()%2==1 {format!("0{}",h)} else {h.to_string()};
   for i in (0..h.len()).step_by(2){ bytes.push(u8::from_str_radix(&h[i..i+2],16).unwrap()); }
   BigInt::from_bytes_be(if neg {Sign::Minus} else {Sign::Plus}, &bytes) }
fn h(x:&BigInt)->String{ let (s,d)=x.to_u64_digits(); let mut o=String::new(); if s==Sign::Minus {o.push('-');}
   if d.is_empty(){o.push('0'); return o;} let mut first=true; for w in d.iter().rev(){ if first {o+=&format!("{:x}",w); first=false;} else {o+=&format!("{:016x}",w);} } o }
fn hu(x:&BigUint)->String{ h(&BigInt::from(x.clone())) }
fn hexs(b:&[u8])->String{ b.iter().map(|x|format!("{:02x}",x)).collect() }
fn unhex(s:&str)->Vec<u8>{ if s=="-" {return vec![];} (0..s.len()).step_by(2).map(|i|u8::from_str_radix(&s[i..i+2],16).unwrap()).collect() }
fn o<T:std::fmt::Debug>(x:Option<T>)->String{ match x {Some(v)=>format!("{:?}",v),None=>"none".into()} }
fn main(){
    std::panic::set_hook(Box::new(|_|{}));
    let stdin=io::stdin(); let out=io::stdout(); let mut out=io::BufWriter::new(out.lock());
    for line in stdin.lock().lines(){
        let line=line.unwrap(); let t:Vec<&str>=line.split(' ').collect();
        let op=t[0];
        let r = catch_unwind(AssertUnwindSafe(|| -> String {
            match op {
              "parse"=>{ let radix:u32=t[1].parse().unwrap(); let s=String::from_utf8(unhex(t[2])).unwrap();
                   let a=BigInt::from_str_radix(&s,radix).ok(); let b=BigUint::from_str_radix(&s,radix).ok();
                   format!("{} {}", a.map(|x|h(&x)).unwrap_or("err".into()), b.map(|x|hu(&x)).unwrap_or("err".into())) }
              "str"=>{ let radix:u32=t[1].parse().unwrap(); let a=pi(t[2]); a.to_str_radix(radix) }
              "radixle"=>{ let radix:u32=t[1].parse().unwrap(); let a=pi(t[2]); hexs(&a.magnitude().to_radix_le(radix)) }
              "fromradixbe"=>{ let radix:u32=t[1].parse().unwrap(); o(BigUint::from_radix_be(&unhex(t[2]),radix).map(|x|hu(&x))) }
              "fromradixle"=>{ let radix:u32=t[1].parse().unwrap(); o(BigUint::from_radix_le(&unhex(t[2]),radix).map(|x|hu(&x))) }
              "fmt"=>{ let a=pi(t[1]); let w:usize=t[2].parse().unwrap();
                   let v=vec![format!("{}",a),format!("{:+}",a),format!("{:#x}",a),format!("{:#X}",a),format!("{:01$}",a,w),format!("{:+#01$b}",a,w),format!("{:*^+#1$o}",a,w),format!("{:<1$}",a,w),format!("{:>1$x}",a,w),format!("{:^#1$X}",a,w),format!("{:#01$x}",a,w),format!("{:?}",a)];
                   let u=a.magnitude(); let v2=vec![format!("{}",u),format!("{:+}",u),format!("{:#x}",u),format!("{:01$}",u,w),format!("{:*^+#1$o}",u,w),format!("{:<1$b}",u,w)];
                   format!("{}|{}", v.join(","), v2.join(",")) }
              "sbytes"=>{ let a=pi(t[1]); format!("{} {} {}", hexs(&a.to_signed_bytes_be()), hexs(&a.to_signed_bytes_le()), hexs(&a.magnitude().to_bytes_be())) }
              "fromsbytes"=>{ let b=unhex(t[1]); let mut l=b.clone(); l.reverse(); format!("{} {} {}", h(&BigInt::from_signed_bytes_be(&b)), h(&BigInt::from_signed_bytes_le(&l)), hu(&BigUint::from_bytes_be(&b))) }
              "bitq"=>{ let a=pi(t[1]); let k:u64=t[2].parse().unwrap(); let mut s1=a.clone(); s1.set_bit(k,true); let mut s0=a.clone(); s0.set_bit(k,false);
                   let u=a.magnitude(); let mut u1=u.clone(); u1.set_bit(k,true); let mut u0=u.clone(); u0.set_bit(k,false);
                   format!("{} {} {} {} {:?} {} {} {} {} {}", a.bit(k), h(&s1), h(&s0), a.bits(), a.trailing_zeros(), u.trailing_ones(), u.count_ones(), u.bit(k), hu(&u1), hu(&u0)) }
              "not"=>{ let a=pi(t[1]); format!("{} {}", h(&!&a), h(&!a)) }
              "shifts"=>{ let a=pi(t[1]); let k:u64=t[2].parse().unwrap(); let mut x=a.clone(); x>>=k; let mut y=a.clone(); y<<=k as usize;
                   format!("{} {} {} {} {} {}", h(&(&a>>k)), h(&(a.clone()>>(k as u128))), h(&x), h(&(&a<<k)), h(&y), hu(&(a.magnitude()>>k))) }
              "conv"=>{ let a=pi(t[1]); format!("{} {} {} {} {} {} {} {} {} {} {} {} {}", o(a.to_i8()),o(a.to_u8()),o(a.to_i16()),o(a.to_u16()),o(a.to_i32()),o(a.to_u32()),o(a.to_i64()),o(a.to_u64()),o(a.to_i128()),o(a.to_u128()),o(a.to_isize()),o(a.to_usize()),
                   match i64::try_from(a.clone()){Ok(v)=>format!("{}",v),Err(e)=>format!("E{}",h(&e.into_original()))}) }
              "uconv"=>{ let a=pi(t[1]); let u=a.magnitude(); format!("{} {} {} {} {} {} {} {}", o(u.to_i8()),o(u.to_u8()),o(u.to_i32()),o(u.to_u32()),o(u.to_i64()),o(u.to_u64()),o(u.to_i128()),o(u.to_u128())) }
              "fromf64"=>{ let f=f64::from_bits(u64::from_str_radix(t[1],16).unwrap()); format!("{} {}", o(BigInt::from_f64(f).map(|x|h(&x))), o(BigUint::from_f64(f).map(|x|hu(&x)))) }
              "fromf32"=>{ let f=f32::from_bits(u32::from_str_radix(t[1],16).unwrap()); format!("{} {}", o(BigInt::from_f32(f).map(|x|h(&x))), o(BigUint::from_f32(f).map(|x|hu(&x)))) }
              "gcdfam"=>{ let a=pi(t[1]); let b=pi(t[2]); let e=a.extended_gcd(&b); let (e2,l2)=a.extended_gcd_lcm(&b); let (g3,l3)=a.gcd_lcm(&b);
                   let (ug,ul)=a.magnitude().gcd_lcm(b.magnitude());
                   format!("{} {} {} {} {} {} {} {} {} {} {} {}", h(&a.gcd(&b)), h(&a.lcm(&b)), h(&e.gcd),h(&e.x),h(&e.y), h(&e2.gcd), h(&l2), h(&g3), h(&l3), hu(&ug), hu(&ul), a.is_multiple_of(&b)) }
              "mult"=>{ let a=pi(t[1]); let b=pi(t[2]); format!("{} {} {} {}", h(&a.next_multiple_of(&b)), h(&a.prev_multiple_of(&b)), hu(&a.magnitude().next_multiple_of(b.magnitude())), hu(&a.magnitude().prev_multiple_of(b.magnitude()))) }
              "powbig"=>{ let a=pi(t[1]); let e=pi(t[2]); h(&Pow::pow(&a, e.magnitude())) }
              "sign"=>{ let a=pi(t[1]); let b=pi(t[2]); format!("{} {} {} {} {} {} {}", h(&-&a), h(&a.abs()), h(&a.signum()), a.is_positive(), a.is_negative(), h(&a.abs_sub(&b)), o(a.to_biguint().map(|x|hu(&x)))) }
              "divall"=>{ let a=pi(t[1]); let b=pi(t[2]); let (q1,r1)=a.div_rem(&b); let (q2,r2)=a.div_mod_floor(&b); let (q3,r3)=a.div_rem_euclid(&b);
                   format!("{} {} {} {} {} {} {} {} {} {} {} {} {}", h(&q1),h(&r1),h(&q2),h(&r2),h(&q3),h(&r3),h(&a.div_ceil(&b)),h(&(&a/&b)),h(&(&a%&b)),h(&a.div_floor(&b)),h(&a.mod_floor(&b)),h(&a.div_euclid(&b)),h(&a.rem_euclid(&b))) }
              "bitops"=>{ let a=pi(t[1]); let b=pi(t[2]); let mut x=a.clone(); x&=&b; let mut y=a.clone(); y|=&b; let mut z=a.clone(); z^=&b;
                   format!("{} {} {} {} {} {}", h(&(&a & &b)), h(&(&a|&b)), h(&(&a^&b)), h(&x),h(&y),h(&z)) }
              _=>"?".into()
            }
        }));
        match r { Ok(s)=>writeln!(out,"{}",s).unwrap(), Err(_)=>writeln!(out,"PANIC").unwrap() }
    }
}
