import random, subprocess, math, sys
rnd=random.Random(int(sys.argv[1]))
def iroot(x,n):
    if x<2: return x
    if n>=x.bit_length(): return 1
    lo,hi=1,1<<(x.bit_length()//n+1)
    while lo<hi:
        mid=(lo+hi+1)//2
        if mid**n<=x: lo=mid
        else: hi=mid-1
    return lo
cases=[]
for i in range(3000):
    n=rnd.choice([1,2,3,2,3,4,5,7,10,63,64,65,100,1000,4294967295])
    k=rnd.choice([1,2,3,10,16,17,20,30,64,100,128])
    x=rnd.getrandbits(64*rnd.randrange(1,k+1))
    if rnd.random()<0.4:
        r=rnd.getrandbits(rnd.randrange(1,max(2,(64*k)//min(n,64*k))+1))+1
        if n<=200: x=max(0,r**n+rnd.choice([-1,0,1]))
    if rnd.random()<0.1: x=(1<<rnd.choice([1023,1024,1025,1087,1088,1089,2047,2048]))+rnd.choice([-1,0,1])
    if rnd.random()<0.1: x=rnd.getrandbits(n+1) if n<5000 else x
    cases.append((x,n))
inp="\n".join(f"roots {x:x} {n}" for x,n in cases)+"\n"
outs={}
for name in ["roots_std","roots_nostd"]:
    out=subprocess.run(["/root/scratch/"+name],input=inp.encode(),capture_output=True).stdout.decode().split("\n")
    bad=0
    for (x,n),g in zip(cases,out):
        e=format(iroot(x,n),'x')
        if e!=g:
            bad+=1
            if bad<4: print("MISMATCH",name,hex(x)[:60],x.bit_length(),n,"got",g[:60],"exp",e[:60])
    print(name,len(cases),"bad",bad); outs[name]=out
print("std==nostd:", outs["roots_std"]==outs["roots_nostd"])
