"""Core of the runtime-monitoring machinery: token codec, commands, problems, evidence.

A *command* is one line for the driver plus a checker closure (the oracle for that call).
The monitor feeds every result line to its checker; checkers return Problems, each tagged with
the set of properties it is evidence against.
"""
import json, os, sys, time, random, hashlib

VERIF = os.path.dirname(os.path.dirname(os.path.abspath(__file__)))
OUT = os.path.join(VERIF, 'out')
B64 = 1 << 64
M64 = B64 - 1


# --------------------------------------------------------------------------------------------
# token encoding (script side)

def hx(v):
    return format(v, 'x') if v else ''


def U(v, pad=0):
    """BigUint literal; pad = number of redundant zero hex chars prepended (high zero words)."""
    assert v >= 0
    return 'U' + '0' * pad + hx(v)


def I(v, pad=0):
    if v == 0:
        return 'I0'
    return 'I' + ('-' if v < 0 else '+') + '0' * pad + hx(abs(v))


def X(b):
    return 'x' + bytes(b).hex()


def S(s):
    if isinstance(s, str):
        s = s.encode('utf-8')
    return 's' + s.hex()


def W(words):
    return 'w' + ','.join(format(w, 'x') for w in words)


# --------------------------------------------------------------------------------------------
# token decoding (result side)

class Panic:
    def __repr__(self):
        return 'PANIC'


PANIC = Panic()


class BV:
    """A big value as reported by the driver: kind 'U'/'I', value, and representation facts."""
    __slots__ = ('kind', 'v', 'canon', 'chan', 'raw')

    def __init__(self, kind, v, canon, chan, raw):
        self.kind, self.v, self.canon, self.chan, self.raw = kind, v, canon, chan, raw

    def __repr__(self):
        return '%s(%s%s%s)' % (self.kind, format(self.v, 'x') if self.v >= 0 else '-' + format(-self.v, 'x'),
                               '' if self.canon else ' NONCANON', '' if self.chan else ' CHAN')


class Err:
    def __init__(self, s):
        self.s = s

    def __repr__(self):
        return 'Err(%s)' % self.s

    def __eq__(self, o):
        return isinstance(o, Err) and o.s == self.s


def parse_tok(t):
    """Decode one value token."""
    c = t[0]
    if c == 'U' and '.' in t:
        chan = True
        if t.endswith('~chan'):
            chan = False
            t = t[:-5]
        nd, h = t[1:].split('.', 1)
        nd = int(nd)
        v = int(h, 16) if h else 0
        canon = (nd == 0 and h == '') or (nd > 0 and h != '' and h[0] != '0' and nd == (v.bit_length() + 63) // 64)
        return BV('U', v, canon, chan, t)
    if c == 'I' and '.' in t:
        chan = True
        if t.endswith('~chan'):
            chan = False
            t = t[:-5]
        sg = t[1]
        nd, h = t[2:].split('.', 1)
        nd = int(nd)
        m = int(h, 16) if h else 0
        mag_canon = (nd == 0 and h == '') or (nd > 0 and h != '' and h[0] != '0' and nd == (m.bit_length() + 63) // 64)
        sign_canon = (sg == '0') == (m == 0)
        v = -m if sg == '-' else m   # denoted value: sign applied to magnitude; NoSign with digits counts as +
        return BV('I', v, mag_canon and sign_canon, chan, t)
    if t == 'N':
        return None
    if t == 'P':
        return PANIC
    if t == 'T':
        return True
    if t == 'F':
        return False
    if c == 'n':
        return int(t[1:])
    if c == 'x':
        return bytes.fromhex(t[1:])
    if c == 's':
        return ('s', bytes.fromhex(t[1:]))
    if c == 'w':
        return [int(x, 16) for x in t[1:].split(',')] if len(t) > 1 else []
    if c == 'q':
        return [int(x, 16) for x in t[1:].split(',')] if len(t) > 1 else []
    if c == 'f':
        return ('f32', int(t[1:], 16))
    if c == 'd':
        return ('f64', int(t[1:], 16))
    if c == 'E':
        return Err(t[1:])
    if c == 'h':
        a, b = t[1:].split(',')
        return ('hint', int(a), int(b))
    if c == 'D':
        return ('digest', t)
    if c == 't':
        return ('tokens', t[1:].split(',') if len(t) > 1 else [])
    return ('raw', t)


class Res:
    """Parsed result line of one command."""
    __slots__ = ('toks', 'pos', 'named', 'mism', 'mut', 'probes', 'crash', 'budget', 'escaped', 'rawline')

    def __init__(self, toks, probe_names=None):
        self.rawline = ' '.join(toks)
        self.pos = []      # positional tokens (strings)
        self.named = {}    # name -> raw string (possibly comma-joined tuple)
        self.mism = {}     # form name -> raw token   (from "!form=tok")
        self.mut = []      # operand indices mutated
        self.probes = {}
        self.crash = None
        self.budget = False
        self.escaped = False
        self.toks = toks
        for t in toks:
            if t[0] == '@':
                for kv in t[1:].split(','):
                    k, n = kv.split(':')
                    name = probe_names[int(k)] if probe_names else k
                    self.probes[name] = int(n)
            elif t[0] == '!':
                if t.startswith('!mut'):
                    self.mut.append(int(t[4:]))
                else:
                    k, _, val = t[1:].partition('=')
                    self.mism[k] = val
            elif t == 'BUDGET':
                self.budget = True
            elif t == 'ESCAPED':
                self.escaped = True
            elif '=' in t and t.split('=', 1)[0].replace('_', '').isalnum():
                k, _, val = t.partition('=')
                # "ck" may appear twice (trait + inherent): keep a list
                if k in self.named:
                    if not isinstance(self.named[k], list):
                        self.named[k] = [self.named[k]]
                    self.named[k].append(val)
                else:
                    self.named[k] = val
            else:
                self.pos.append(t)

    def val(self, i):
        return parse_tok(self.pos[i])

    def get(self, name):
        """named value: single token -> decoded; comma tuple -> list of decoded"""
        raw = self.named.get(name)
        if raw is None:
            return ('missing',)
        return decode_named(raw)


def decode_named(raw):
    if isinstance(raw, list):
        return [decode_named(r) for r in raw]
    if raw == 'P':
        return PANIC
    if raw and raw[0] in 'wq':
        # word lists contain commas of their own
        return parse_tok(raw)
    if ',' in raw and raw[0] not in 'ht':
        parts = raw.split(',')
        # re-join word lists following a sign: "n-1,w1,2,3" -> [n-1, w1,2,3]
        out = []
        i = 0
        while i < len(parts):
            p = parts[i]
            if p and p[0] in 'wq':
                out.append(parse_tok(','.join(parts[i:])))
                break
            out.append(parse_tok(p))
            i += 1
        return out
    return parse_tok(raw)


# --------------------------------------------------------------------------------------------
# problems and commands

class Problem:
    __slots__ = ('props', 'what', 'cmd', 'variant', 'detail')

    def __init__(self, props, what, detail=''):
        self.props = frozenset([props] if isinstance(props, str) else props)
        self.what = what
        self.detail = detail
        self.cmd = None
        self.variant = None

    def __repr__(self):
        return 'Problem(%s: %s %s)' % (','.join(sorted(self.props)), self.what, self.detail)


class Cmd:
    """line: driver command; check(res) -> [Problem]; cell: hashable shape class;
    nontrivial: None | callable(res)->bool | bool"""
    __slots__ = ('line', 'check', 'cell', 'nontrivial', 'prop', 'uid')

    def __init__(self, line, check, cell=None, nontrivial=True, prop=None):
        self.uid = None
        self.line = line
        self.check = check
        self.cell = cell
        self.nontrivial = nontrivial
        self.prop = prop


def group(cmds):
    """a list of commands that must run in one process in order (shared register state)"""
    return list(cmds)


# ---- generic value checks shared by all oracles --------------------------------------------

def chk_big(prop, got, want, what, kind=None):
    """got: decoded token; want: python int (or PANIC / None). Returns problems.
    Value mismatch -> prop; non-canonical representation -> C04; channel mismatch -> C09."""
    out = []
    if want is PANIC:
        if got is not PANIC:
            out.append(Problem({prop, 'C14'}, what + ': returned instead of panicking', 'got=%r' % (got,)))
        return out
    if got is PANIC:
        out.append(Problem({prop, 'C14'}, what + ': panicked on a valid input', 'want=%s' % fmt_want(want)))
        return out
    if want is None:
        if got is not None:
            out.append(Problem(prop, what + ': expected None', 'got=%r' % (got,)))
        return out
    if not isinstance(got, BV):
        out.append(Problem(prop, what + ': expected a value', 'got=%r want=%s' % (got, fmt_want(want))))
        return out
    if kind and got.kind != kind:
        out.append(Problem(prop, what + ': wrong result type', 'got=%r' % (got,)))
    if not got.chan:
        out.append(Problem('C09', what + ': export channels disagree (digits vs to_bytes_le)', 'got=%r' % (got,)))
    if got.v != want:
        out.append(Problem(prop, what + ': wrong value', 'got=%r want=%s' % (got, fmt_want(want))))
    if not got.canon:
        # a non-canonical object does not compare equal to the integer it denotes, so the operation's own
        # property ("returns exactly ...") is violated as well as C04
        out.append(Problem({'C04', prop}, what + ': result not in canonical form (high zero digit or sign/zero mismatch)', 'got=%s' % got.raw))
    return out


def fmt_want(w):
    if isinstance(w, int) and not isinstance(w, bool):
        return ('-' if w < 0 else '') + format(abs(w), 'x')
    return repr(w)


def chk_eq(prop, got, want, what):
    if want is PANIC:
        if got is not PANIC:
            return [Problem({prop, 'C14'}, what + ': returned instead of panicking', 'got=%r' % (got,))]
        return []
    if got is PANIC:
        return [Problem({prop, 'C14'}, what + ': panicked on a valid input', 'want=%r' % (want,))]
    if got != want:
        return [Problem(prop, what + ': wrong result', 'got=%r want=%r' % (got, want))]
    return []


def common_checks(res):
    """monitors applied to every event: operand mutation (C15), escaped panic, crash"""
    out = []
    for k in res.mut:
        out.append(Problem('C15', 'a borrowed operand was modified by the call', 'operand index %d' % k))
    if res.escaped:
        out.append(Problem('HARNESS', 'panic escaped the per-call guards', res.rawline))
    return out


# --------------------------------------------------------------------------------------------
# deterministic randomness helpers

def rng_for(seed, *salt):
    h = hashlib.sha256(repr((seed,) + salt).encode()).digest()
    return random.Random(int.from_bytes(h[:8], 'big'))


def rand_digits(rnd, n, kind=None):
    """n-digit (64-bit) value of an adversarial kind; exact length n when n>0"""
    if n == 0:
        return 0
    if kind is None:
        kind = rnd.randrange(9)
    bits = 64 * n
    if kind == 0:
        v = rnd.getrandbits(bits)
    elif kind == 1:
        v = (1 << bits) - 1
    elif kind == 2:
        v = 1 << (bits - 1)
    elif kind == 3:
        v = ((1 << bits) - 1) ^ ((1 << (64 * rnd.randrange(n))) - 1)
    elif kind == 4:
        v = 0
        for i in range(n):
            v |= rnd.choice([0, 0, M64, 1, 1 << 63, rnd.getrandbits(64), M64 - 1]) << (64 * i)
    elif kind == 5:
        v = 1 << rnd.randrange(bits)
    elif kind == 6:
        v = (1 << rnd.randrange(1, bits + 1)) - 1
    elif kind == 7:
        v = 0
        for i in range(n):
            v |= (M64 if i % 2 else 0) << (64 * i)
    else:
        v = rnd.getrandbits(bits)
    top = (v >> (bits - 64)) & M64
    if top == 0:
        v |= rnd.choice([1, M64, 1 << 63, rnd.getrandbits(64) | 1]) << (bits - 64)
    return v


def ndig(v):
    return (abs(v).bit_length() + 63) // 64


def special_values():
    """values nobody lists explicitly: primitive-type boundaries, word boundaries, decimal boundaries, sparse values"""
    vals = {0, 1, 2, 3, 5, 7, 10, 255, 256, 10 ** 19, 10 ** 19 + 1, 10 ** 20, 10 ** 38, 10 ** 39, 3 ** 40, 3 ** 41, 7 ** 22}
    for k in (7, 8, 15, 16, 31, 32, 33, 63, 64, 65, 95, 96, 127, 128, 129, 191, 192, 193, 255, 256, 257, 319, 320, 321):
        vals |= {(1 << k) - 1, 1 << k, (1 << k) + 1}
    # repeated 64-bit / 32-bit digit values (a lower digit equal to the top digit) and palindromic digit vectors
    for d in (1, 5, 0xffffffff, 0x100000000, 0x100000001, (1 << 64) - 1, 1 << 63):
        for k in (2, 3, 5):
            vals.add(sum(d << (64 * i) for i in range(k)))
        vals.add(d | (7 << 64) | (d << 128))
        vals.add(d | (d << 32 if d < (1 << 32) else 0) | (d << 96 if d < (1 << 32) else d << 128))
    vals |= {(1 << 128) + (1 << 64), (1 << 192) + 1, ((1 << 64) - 1) << 64, ((1 << 64) - 1) << 128, (1 << 128) - (1 << 64), (3 << 126), (1 << 200) - (1 << 100)}
    return sorted(vals)
