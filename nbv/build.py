"""Driver build variants.  Every check rebuilds the driver against /repo's *current working
tree* (path dependency) with the hooks enabled; a content hash of the sources guards against a
tree whose mtimes were preserved."""
import fcntl, hashlib, os, subprocess, sys, time

from .core import VERIF

REPO = os.path.abspath(os.environ.get('NBV_REPO', '/repo'))
DRIVER = os.path.join(VERIF, 'driver')
if REPO != '/repo':
    # mutation trials against a scratch worktree: a shadow copy of the driver crate whose path
    # dependency points at that worktree (own target dirs, so trials can run side by side)
    _sh = os.environ.get('NBV_SHADOW') or ('/tmp/nbv-shadow-' + hashlib.md5(REPO.encode()).hexdigest()[:10])
    os.makedirs(_sh, exist_ok=True)
    _ct = open(os.path.join(DRIVER, 'Cargo.toml')).read().replace('path = "/repo"', 'path = "%s"' % REPO)
    if not os.path.exists(os.path.join(_sh, 'Cargo.toml')) or open(os.path.join(_sh, 'Cargo.toml')).read() != _ct:
        open(os.path.join(_sh, 'Cargo.toml'), 'w').write(_ct)
    if not os.path.exists(os.path.join(_sh, 'Cargo.lock')):
        import shutil
        shutil.copy(os.path.join(DRIVER, 'Cargo.lock'), os.path.join(_sh, 'Cargo.lock'))
    if not os.path.exists(os.path.join(_sh, 'src')):
        os.symlink(os.path.join(DRIVER, 'src'), os.path.join(_sh, 'src'))
    DRIVER = _sh
ALLF = 'std,rand,serde,arbitrary,quickcheck'

VARIANTS = {
    # name: (toolchain, profile, features, extra rustflags, target triple or None)
    'rel': ('stable', 'release', ALLF, '', None),
    'dbg': ('stable', 'dev', ALLF, '', None),
    'nostd-rel': ('stable', 'release', 'rand,serde', '', None),
    'nostd-dbg': ('stable', 'dev', 'rand,serde', '', None),
    'min-rel': ('stable', 'release', 'std', '', None),
    'min-dbg': ('stable', 'dev', 'std', '', None),
    'guard-rel': ('stable', 'release', 'std,rand,serde,guardalloc', '', None),
    'guard-dbg': ('stable', 'dev', 'std,rand,serde,guardalloc', '', None),
    # the library built WITHOUT its std feature under the guard allocator (configuration-conditional size estimates)
    'guard-nostd-rel': ('stable', 'release', 'rand,serde,guardalloc', '', None),
    # source-coverage build of the library under the driver (tools/coverage.py): which functions / lines of /repo/src the
    # quick workloads never execute
    'cov': ('nightly', 'dev', ALLF, '-Cinstrument-coverage', 'x86_64-unknown-linux-gnu'),
    'asan': ('nightly', 'release', ALLF, '-Zsanitizer=address -Cforce-frame-pointers=yes', 'x86_64-unknown-linux-gnu'),
}

BASE_ENV = dict(os.environ)
BASE_ENV['CARGO_NET_OFFLINE'] = 'true'
BASE_ENV.pop('RUSTFLAGS', None)


def tree_hash():
    h = hashlib.sha256()
    files = []
    for root, dirs, fs in os.walk(os.path.join(REPO, 'src')):
        dirs.sort()
        for f in sorted(fs):
            files.append(os.path.join(root, f))
    files += [os.path.join(REPO, 'Cargo.toml')]
    for f in files:
        h.update(os.path.relpath(f, REPO).encode())
        try:
            with open(f, 'rb') as fh:
                h.update(fh.read())
        except OSError:
            h.update(b'<missing>')
    return h.hexdigest()[:16]


def target_dir(variant):
    return os.path.join(DRIVER, 'target-' + variant)


class BuildError(Exception):
    def __init__(self, variant, log):
        Exception.__init__(self, 'build of variant %s failed' % variant)
        self.variant = variant
        self.log = log

    def first_error(self):
        for l in self.log.splitlines():
            if l.startswith('error'):
                return l
        return self.log[-400:]


_built = {}


def ensure_built(variant, quiet=True):
    """Build (incrementally) and return the path of the driver binary for this variant."""
    if variant in _built:
        return _built[variant]
    tc, profile, feats, extra, triple = VARIANTS[variant]
    tdir = target_dir(variant)
    os.makedirs(tdir, exist_ok=True)
    lock = open(os.path.join(tdir, '.nbv-lock'), 'w')
    fcntl.flock(lock, fcntl.LOCK_EX)
    try:
        env = dict(BASE_ENV)
        env['RUSTFLAGS'] = ('--cfg num_bigint_verif ' + extra).strip()
        cargo = ['cargo'] + (['+nightly'] if tc == 'nightly' else [])
        common = ['--offline', '--manifest-path', os.path.join(DRIVER, 'Cargo.toml'), '--target-dir', tdir]
        prof = ['--release'] if profile == 'release' else []
        trip = ['--target', triple] if triple else []
        # content-hash rule
        th = tree_hash()
        stamp = os.path.join(tdir, '.nbv-tree-hash')
        old = open(stamp).read().strip() if os.path.exists(stamp) else ''
        if old and old != th:
            subprocess.run(cargo + ['clean', '-p', 'num-bigint'] + common + prof + trip, env=env,
                           stdout=subprocess.DEVNULL, stderr=subprocess.DEVNULL)
        t0 = time.time()
        p = subprocess.run(cargo + ['build'] + common + prof + trip + ['--no-default-features', '--features', feats],
                           env=env, stdout=subprocess.PIPE, stderr=subprocess.STDOUT, text=True)
        if p.returncode != 0:
            raise BuildError(variant, p.stdout)
        with open(stamp, 'w') as f:
            f.write(th)
        sub = 'release' if profile == 'release' else 'debug'
        path = os.path.join(tdir, triple, sub, 'nbdrive') if triple else os.path.join(tdir, sub, 'nbdrive')
        if not os.path.exists(path):
            raise BuildError(variant, 'binary missing: ' + path + '\n' + p.stdout)
        if not quiet:
            print('[build] %s ok in %.1fs (tree %s)' % (variant, time.time() - t0, th), file=sys.stderr)
        _built[variant] = path
        return path
    finally:
        fcntl.flock(lock, fcntl.LOCK_UN)
        lock.close()


# --------------------------------------------------------------------------------------------
# Miri on foreign targets (the x86_64 asm! cannot be interpreted; i686 = 32-bit digits,
# s390x = big-endian, aarch64 = 64-bit digits with the portable carry/divide fallbacks)

MIRI_TARGETS = {'i686': 'i686-unknown-linux-gnu', 's390x': 's390x-unknown-linux-gnu', 'aarch64': 'aarch64-unknown-linux-gnu'}
MIRI_FEATURES = 'std,rand,serde'
_miri_ready = {}


def miri_env(short):
    env = dict(BASE_ENV)
    env['MIRI_SYSROOT'] = os.path.join(VERIF, 'miri-sysroot', MIRI_TARGETS[short])
    env['MIRIFLAGS'] = '-Zmiri-disable-isolation'
    env['RUSTFLAGS'] = '--cfg num_bigint_verif'
    return env


def miri_argv(short):
    t = MIRI_TARGETS[short]
    return ['cargo', '+nightly', 'miri', 'run', '--offline', '--quiet', '--target', t, '--manifest-path', os.path.join(DRIVER, 'Cargo.toml'),
            '--target-dir', os.path.join(DRIVER, 'target-miri-' + short), '--no-default-features', '--features', MIRI_FEATURES, '--']


def ensure_miri(short, quiet=True):
    """sysroot (built offline from rust-src) + a warm build of the driver for this target"""
    if short in _miri_ready:
        return
    env = miri_env(short)
    t0 = time.time()
    tdir = os.path.join(DRIVER, 'target-miri-' + short)
    os.makedirs(tdir, exist_ok=True)
    lock = open(os.path.join(tdir, '.nbv-lock'), 'w')
    fcntl.flock(lock, fcntl.LOCK_EX)
    try:
        if not os.path.isdir(os.path.join(env['MIRI_SYSROOT'], 'lib')):
            p = subprocess.run(['cargo', '+nightly', 'miri', 'setup', '--target', MIRI_TARGETS[short]], env=env,
                               stdout=subprocess.PIPE, stderr=subprocess.STDOUT, text=True)
            if p.returncode != 0:
                raise BuildError('miri-' + short, p.stdout)
        th = tree_hash()
        stamp = os.path.join(tdir, '.nbv-tree-hash')
        old = open(stamp).read().strip() if os.path.exists(stamp) else ''
        if old and old != th:
            subprocess.run(['cargo', '+nightly', 'clean', '-p', 'num-bigint', '--offline', '--manifest-path', os.path.join(DRIVER, 'Cargo.toml'),
                            '--target-dir', tdir, '--target', MIRI_TARGETS[short]], env=env, stdout=subprocess.DEVNULL, stderr=subprocess.DEVNULL)
        empty = os.path.join(tdir, 'empty-script.txt')
        open(empty, 'w').close()
        p = subprocess.run(miri_argv(short) + [empty], env=env, stdout=subprocess.PIPE, stderr=subprocess.STDOUT, text=True)
        if p.returncode != 0 or 'END 0' not in p.stdout:
            raise BuildError('miri-' + short, p.stdout)
        with open(stamp, 'w') as f:
            f.write(th)
        if not quiet:
            print('[build] miri-%s ok in %.1fs' % (short, time.time() - t0), file=sys.stderr)
        _miri_ready[short] = True
    finally:
        fcntl.flock(lock, fcntl.LOCK_UN)
        lock.close()
