"""Cross-configuration event-log equality (digit width / endianness / feature independence)."""
from .core import Problem
from . import runner

WIDTH_DEPENDENT = ('usize', 'isize', 'toprim')


def portable(cmds):
    """commands whose expected output does not depend on the pointer width of the target"""
    return [c for c in cmds if not any(w in c.line for w in WIDTH_DEPENDENT)]


def cross_stages(prop, cmds, ref, others, what):
    """ref / others: list of stage dicts (variant/tool/label...). Returns stages incl. a final
    comparison stage that demands identical result lines (probe tokens stripped)."""
    for i, c in enumerate(cmds):
        c.uid = i
    groups = [[c] for c in cmds]
    logs = {}

    def collector(lbl):
        def post(sr):
            logs[lbl] = dict(sr.raw)
        return post

    stages = []
    for st in [ref] + others:
        d = dict(st)
        d['groups'] = groups
        d['keep_raw'] = True
        d['post'] = collector(d['label'])
        stages.append(d)

    def compare():
        sr = runner.StageResult()
        rl = ref['label']
        if rl not in logs:
            sr.inconclusive.append('reference log %s missing' % rl)
            return sr
        for st in others:
            lbl = st['label']
            if lbl not in logs:
                sr.inconclusive.append('log %s missing' % lbl)
                continue
            nd = 0
            for c in cmds:
                a, b = logs[rl].get(c.uid), logs[lbl].get(c.uid)
                if a is None or b is None:
                    continue
                # native-endian exports legitimately differ between little- and big-endian targets (each is checked
                # against the model on its own target)
                a = ' '.join(t for t in a.split(' ') if not t.startswith('tne='))
                b = ' '.join(t for t in b.split(' ') if not t.startswith('tne='))
                sr.evaluations += 1
                if a != b:
                    nd += 1
                    if nd <= 5:
                        pr = Problem(prop, '%s: results differ between %s and %s' % (what, rl, lbl), '%s: %s | %s: %s' % (rl, a[:300], lbl, b[:300]))
                        pr.cmd = c.line
                        pr.variant = rl + '|' + lbl
                        sr.problems.append(pr)
                else:
                    sr.cells.add((lbl, c.cell))
            sr.samples.append({'compared': '%s vs %s' % (rl, lbl), 'entries': len(cmds), 'differing': nd})
        return sr

    stages.append(dict(label='compare-' + '-'.join(s['label'] for s in others), custom=compare))
    return stages
