"""setup: build every driver variant the quick checks use (offline, from files on disk)."""
import sys, time
from concurrent.futures import ThreadPoolExecutor

from . import build

QUICK_VARIANTS = ['rel', 'dbg', 'nostd-rel', 'nostd-dbg', 'min-rel', 'guard-rel', 'guard-nostd-rel']
THOROUGH_VARIANTS = ['min-dbg', 'guard-dbg', 'asan']


def main(argv=None):
    t0 = time.time()
    variants = QUICK_VARIANTS + THOROUGH_VARIANTS
    failed = []

    def one(v):
        try:
            build.ensure_built(v, quiet=False)
            return None
        except build.BuildError as e:
            return (v, e.first_error())

    with ThreadPoolExecutor(max_workers=4) as ex:
        for r in ex.map(one, variants):
            if r:
                failed.append(r)
    for t in ('i686', 's390x', 'aarch64'):
        try:
            build.ensure_miri(t, quiet=False)
        except build.BuildError as e:
            failed.append(('miri-' + t, e.first_error()))
    for v, e in failed:
        print('[setup] variant %s failed to build: %s' % (v, e), file=sys.stderr)
    print('[setup] done in %.0fs (%d variants, %d failed)' % (time.time() - t0, len(variants), len(failed)), file=sys.stderr)
    # thorough-only variants may fail (e.g. nightly sanitizer unavailable) without failing setup
    return 1 if any(v in QUICK_VARIANTS or v.startswith('miri-') for v, _ in failed) else 0
