"""Oracles (executable models) for the arithmetic commands of the driver, shared by several
properties.  The model is CPython's int, which shares no code with the crate."""
import math

from .core import (PANIC, Problem, Cmd, U, I, chk_big, chk_eq, parse_tok, decode_named, BV, ndig, fmt_want)

B = 1 << 64


def tok(v, kind, pad=0):
    return U(v, pad) if kind == 'U' else I(v, pad)


def tdivmod(a, b):
    q = abs(a) // abs(b)
    r = abs(a) % abs(b)
    if (a < 0) != (b < 0):
        q = -q
    if a < 0:
        r = -r
    return q, r


def model_bb(op, a, b, kind):
    if op == 'add':
        return a + b
    if op == 'sub':
        if kind == 'U' and a < b:
            return PANIC
        return a - b
    if op == 'mul':
        return a * b
    if op == 'div':
        if b == 0:
            return PANIC
        return tdivmod(a, b)[0]
    if op == 'rem':
        if b == 0:
            return PANIC
        return tdivmod(a, b)[1]
    if op == 'and':
        return a & b
    if op == 'or':
        return a | b
    if op == 'xor':
        return a ^ b
    raise ValueError(op)


def check_forms(mism, prop, want, label, kind, extra_props=('C10',)):
    """every '!form=value' entry is a form that disagreed with the canonical ref-ref result"""
    out = []
    for form, raw in mism.items():
        got = parse_tok(raw)
        what = '%s: form %s' % (label, form)
        props = set(extra_props) | {prop}
        if want is PANIC:
            if got is not PANIC:
                out.append(Problem(props | {'C14'}, what + ' returned where the canonical form panics', 'got=%r' % (got,)))
            continue
        if got is PANIC:
            out.append(Problem(props | {'C14'}, what + ' panicked where the canonical form returns', 'want=%s' % fmt_want(want)))
            continue
        if isinstance(got, BV) and isinstance(want, int) and got.v == want:
            # same integer, different representation: that is a canonical-form matter
            if not got.canon:
                out.append(Problem('C04', what + ' returned a non-canonical representation', 'got=%s' % got.raw))
            continue
        out.append(Problem(props, what + ' disagrees with the ref-ref result', 'got=%r want=%s' % (got, fmt_want(want))))
    return out


def cmd_bb(prop, op, a, b, kind, cell=None, nontrivial=True, pad=(0, 0)):
    line = 'bb %s %s %s' % (op, tok(a, kind, pad[0]), tok(b, kind, pad[1]))
    want = model_bb(op, a, b, kind)

    def check(res):
        label = 'bb %s' % op
        out = chk_big(prop, res.val(0), want, label + ' (&a op &b)', kind)
        out += check_forms(res.mism, prop, want, label, kind)
        if 'ck' in res.named:
            cks = res.get('ck')
            if not isinstance(cks, list):
                cks = [cks]
            if want is PANIC:
                wck = None     # checked_* must return None exactly where the operator panics
            else:
                wck = want
            for ck in cks:
                if ck is PANIC:
                    out.append(Problem({prop, 'C14', 'C10'}, label + ': checked_%s panicked' % op, ''))
                elif wck is None:
                    if ck is not None:
                        out.append(Problem({prop, 'C14', 'C10'}, label + ': checked_%s returned Some in the failure case' % op, 'got=%r' % (ck,)))
                else:
                    if ck is None:
                        out.append(Problem({prop, 'C14', 'C10'}, label + ': checked_%s returned None on a valid input' % op, ''))
                    else:
                        out += chk_big(prop, ck, wck, label + ' checked_%s' % op, kind)
        return out

    return Cmd(line, check, cell=cell, nontrivial=nontrivial, prop=prop)


# ---------------------------------------------------------------- scalar types

STYPES = {
    'u8': (0, 2**8 - 1), 'u16': (0, 2**16 - 1), 'u32': (0, 2**32 - 1), 'u64': (0, 2**64 - 1),
    'u128': (0, 2**128 - 1), 'usize': (0, 2**64 - 1),
    'i8': (-2**7, 2**7 - 1), 'i16': (-2**15, 2**15 - 1), 'i32': (-2**31, 2**31 - 1), 'i64': (-2**63, 2**63 - 1),
    'i128': (-2**127, 2**127 - 1), 'isize': (-2**63, 2**63 - 1),
}
UTYPES = ['u8', 'u16', 'u32', 'u64', 'u128', 'usize']
ITYPES = ['i8', 'i16', 'i32', 'i64', 'i128', 'isize']


def scalar_extremes(ty):
    lo, hi = STYPES[ty]
    vals = {0, 1, 2, hi, hi - 1, hi // 2, hi // 2 + 1, 7, 255 if hi >= 255 else hi}
    if lo < 0:
        vals |= {-1, -2, lo, lo + 1, lo // 2, -7}
    for k in (16, 31, 32, 33, 63, 64, 65, 96, 127):
        for d in (-1, 0, 1):
            v = (1 << k) + d
            if lo <= v <= hi:
                vals.add(v)
            if lo <= -v <= hi:
                vals.add(-v)
    return sorted(vals)


def cmd_sf(prop, op, ty, a, s, kind, cell=None):
    """scalar forms: canonical fwd = &A op &Big::from(s), rev = &Big::from(s) op &A"""
    line = 'sf %s %s %s %d' % (op, ty, tok(a, kind), s)
    wf = model_bb(op, a, s, kind)
    wr = model_bb(op, s, a, kind)
    fwd_forms = ('r_s', 'v_s', 'vs_s', 'r_rs', 'v_rs', 'as_s', 'ass_s')

    def check(res):
        label = 'sf %s %s' % (op, ty)
        out = chk_big(prop, res.get('fwd'), wf, label + ' fwd canonical', kind)
        out += chk_big(prop, res.get('rev'), wr, label + ' rev canonical', kind)
        for form, raw in res.mism.items():
            want = wf if form in fwd_forms else wr
            out += check_forms({form: raw}, prop, want, label, kind)
        return out

    return Cmd(line, check, cell=cell, prop=prop)
