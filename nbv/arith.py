"""Oracles (executable models) for the arithmetic commands of the driver, shared by several
properties.  The model is CPython's int, which shares no code with the crate."""
import math

from .core import (PANIC, Problem, Cmd, U, I, chk_big, chk_eq, parse_tok, decode_named, BV, ndig, fmt_want)

B = 1 << 64


def tok(v, kind, pad=0):
    return U(v, pad) if kind == 'U' else I(v, pad)


def tdivmod(a, b):
    q = abs(a) // abs(b)
    r = abs(a) % abs(b)
    if (a < 0) != (b < 0):
        q = -q
    if a < 0:
        r = -r
    return q, r


def model_bb(op, a, b, kind):
    if op == 'add':
        return a + b
    if op == 'sub':
        if kind == 'U' and a < b:
            return PANIC
        return a - b
    if op == 'mul':
        return a * b
    if op == 'div':
        if b == 0:
            return PANIC
        return tdivmod(a, b)[0]
    if op == 'rem':
        if b == 0:
            return PANIC
        return tdivmod(a, b)[1]
    if op == 'and':
        return a & b
    if op == 'or':
        return a | b
    if op == 'xor':
        return a ^ b
    raise ValueError(op)


def check_forms(mism, prop, want, label, kind, extra_props=('C10',)):
    """every '!form=value' entry is a form that disagreed with the canonical ref-ref result"""
    out = []
    for form, raw in mism.items():
        got = parse_tok(raw)
        what = '%s: form %s' % (label, form)
        props = set(extra_props) | {prop}
        if want is PANIC:
            if got is not PANIC:
                out.append(Problem(props | {'C14'}, what + ' returned where the canonical form panics', 'got=%r' % (got,)))
            continue
        if got is PANIC:
            out.append(Problem(props | {'C14'}, what + ' panicked where the canonical form returns', 'want=%s' % fmt_want(want)))
            continue
        if isinstance(got, BV) and isinstance(want, int) and got.v == want:
            # same integer, different representation: that is a canonical-form matter
            if not got.canon:
                out.append(Problem(props | {'C04'}, what + ' returned a non-canonical representation', 'got=%s' % got.raw))
            continue
        out.append(Problem(props, what + ' disagrees with the ref-ref result', 'got=%r want=%s' % (got, fmt_want(want))))
    return out


def cmd_bb(prop, op, a, b, kind, cell=None, nontrivial=True, pad=(0, 0)):
    line = 'bb %s %s %s' % (op, tok(a, kind, pad[0]), tok(b, kind, pad[1]))
    want = model_bb(op, a, b, kind)

    def check(res):
        label = 'bb %s' % op
        out = chk_big(prop, res.val(0), want, label + ' (&a op &b)', kind)
        out += check_forms(res.mism, prop, want, label, kind)
        if 'ck' in res.named:
            cks = res.get('ck')
            if not isinstance(cks, list):
                cks = [cks]
            if want is PANIC:
                wck = None     # checked_* must return None exactly where the operator panics
            else:
                wck = want
            for ck in cks:
                if ck is PANIC:
                    out.append(Problem({prop, 'C14', 'C10'}, label + ': checked_%s panicked' % op, ''))
                elif wck is None:
                    if ck is not None:
                        out.append(Problem({prop, 'C14', 'C10'}, label + ': checked_%s returned Some in the failure case' % op, 'got=%r' % (ck,)))
                else:
                    if ck is None:
                        out.append(Problem({prop, 'C14', 'C10'}, label + ': checked_%s returned None on a valid input' % op, ''))
                    else:
                        out += chk_big(prop, ck, wck, label + ' checked_%s' % op, kind)
        return out

    return Cmd(line, check, cell=cell, nontrivial=nontrivial, prop=prop)


# ---------------------------------------------------------------- scalar types

STYPES = {
    'u8': (0, 2**8 - 1), 'u16': (0, 2**16 - 1), 'u32': (0, 2**32 - 1), 'u64': (0, 2**64 - 1),
    'u128': (0, 2**128 - 1), 'usize': (0, 2**64 - 1),
    'i8': (-2**7, 2**7 - 1), 'i16': (-2**15, 2**15 - 1), 'i32': (-2**31, 2**31 - 1), 'i64': (-2**63, 2**63 - 1),
    'i128': (-2**127, 2**127 - 1), 'isize': (-2**63, 2**63 - 1),
}
UTYPES = ['u8', 'u16', 'u32', 'u64', 'u128', 'usize']
ITYPES = ['i8', 'i16', 'i32', 'i64', 'i128', 'isize']


def scalar_extremes(ty):
    lo, hi = STYPES[ty]
    vals = {0, 1, 2, hi, hi - 1, hi // 2, hi // 2 + 1, 7, 255 if hi >= 255 else hi}
    if lo < 0:
        vals |= {-1, -2, lo, lo + 1, lo // 2, -7}
    for k in (16, 31, 32, 33, 63, 64, 65, 96, 127):
        for d in (-1, 0, 1):
            v = (1 << k) + d
            if lo <= v <= hi:
                vals.add(v)
            if lo <= -v <= hi:
                vals.add(-v)
    return sorted(vals)


def cmd_sf(prop, op, ty, a, s, kind, cell=None):
    """scalar forms: canonical fwd = &A op &Big::from(s), rev = &Big::from(s) op &A"""
    line = 'sf %s %s %s %d' % (op, ty, tok(a, kind), s)
    wf = model_bb(op, a, s, kind)
    wr = model_bb(op, s, a, kind)
    fwd_forms = ('r_s', 'v_s', 'vs_s', 'r_rs', 'v_rs', 'as_s', 'ass_s')

    def check(res):
        label = 'sf %s %s' % (op, ty)
        out = chk_big(prop, res.get('fwd'), wf, label + ' fwd canonical', kind)
        out += chk_big(prop, res.get('rev'), wr, label + ' rev canonical', kind)
        for form, raw in res.mism.items():
            want = wf if form in fwd_forms else wr
            out += check_forms({form: raw}, prop, want, label, kind)
        return out

    return Cmd(line, check, cell=cell, prop=prop)


# ---------------------------------------------------------------- division conventions

def model_divall(a, b, kind):
    """expected result per API name; values are ints, tuples of ints, None, or PANIC"""
    names = ['div', 'rem', 'div_rem', 'div_floor', 'mod_floor', 'div_mod_floor', 'div_ceil', 'div_euclid',
             'rem_euclid', 'div_rem_euclid', 'checked_div', 'checked_div_euclid', 'checked_rem_euclid',
             'checked_div_rem_euclid']
    if kind == 'I':
        names.append('checked_div_inh')
    if b == 0:
        return {n: (None if n.startswith('checked') else PANIC) for n in names}
    tq, tr = tdivmod(a, b)
    fq, fr = divmod(a, b)
    er = a % abs(b)
    eq = (a - er) // b
    cq = -((-a) // b)
    m = {'div': tq, 'rem': tr, 'div_rem': (tq, tr), 'div_floor': fq, 'mod_floor': fr, 'div_mod_floor': (fq, fr),
         'div_ceil': cq, 'div_euclid': eq, 'rem_euclid': er, 'div_rem_euclid': (eq, er), 'checked_div': tq,
         'checked_div_euclid': eq, 'checked_rem_euclid': er, 'checked_div_rem_euclid': (eq, er)}
    if kind == 'I':
        m['checked_div_inh'] = tq
    return m


def uniqueness_problems(prop, name, a, b, q, r):
    """the defining conditions themselves, asserted on the reported pair (independent of model lines)"""
    out = []
    if a != q * b + r:
        out.append(Problem(prop, '%s: a != q*b + r' % name, 'q=%x r=%x' % (q, r)))
    if name in ('div_rem',):
        if not (abs(r) < abs(b) and (r == 0 or (r < 0) == (a < 0))):
            out.append(Problem(prop, '%s: remainder violates truncation convention' % name, 'r=%x' % r))
    elif name in ('div_mod_floor',):
        if not (abs(r) < abs(b) and (r == 0 or (r < 0) == (b < 0))):
            out.append(Problem(prop, '%s: remainder violates flooring convention' % name, 'r=%x' % r))
    elif name in ('div_rem_euclid', 'checked_div_rem_euclid'):
        if not (0 <= r < abs(b)):
            out.append(Problem(prop, '%s: remainder outside [0,|b|)' % name, 'r=%x' % r))
    return out


def cmd_divall(prop, a, b, kind, cell=None, nontrivial=True):
    line = 'divall %s %s' % (tok(a, kind), tok(b, kind))
    want = model_divall(a, b, kind)

    def check(res):
        out = []
        for name, w in want.items():
            got = res.get(name)
            label = 'divall %s' % name
            if isinstance(w, tuple):
                if got is PANIC:
                    out.append(Problem({prop, 'C14'}, label + ': panicked on a valid input', ''))
                    continue
                if not (isinstance(got, list) and len(got) == 2):
                    out.append(Problem(prop, label + ': expected a pair', 'got=%r' % (got,)))
                    continue
                out += chk_big(prop, got[0], w[0], label + ' quotient', kind)
                out += chk_big(prop, got[1], w[1], label + ' remainder', kind)
                if all(isinstance(g, BV) for g in got):
                    out += uniqueness_problems(prop, name, a, b, got[0].v, got[1].v)
            elif w is None and name.startswith('checked'):
                if got is PANIC:
                    out.append(Problem({prop, 'C14'}, label + ': panicked instead of returning None for a zero divisor', ''))
                elif got is not None:
                    out.append(Problem({prop, 'C14'}, label + ': returned Some for a zero divisor', 'got=%r' % (got,)))
            else:
                out += chk_big(prop, got, w, label, kind)
        return out

    return Cmd(line, check, cell=cell, nontrivial=nontrivial, prop=prop)


def cmd_srem(prop, ty, s, b, cell=None):
    """scalar %= BigUint (by reference and by value); canonical: truncated remainder of the
    losslessly converted operands"""
    line = 'srem %s %d %s' % (ty, s, U(b))
    want = PANIC if b == 0 else tdivmod(s, b)[1]

    def check(res):
        out = []
        for k, nm in ((0, 'scalar %= &BigUint'), (1, 'scalar %= BigUint')):
            for pr in chk_eq(prop, res.val(k), want, 'srem %s %s' % (ty, nm)):
                pr.props = pr.props | {'C10'}
                out.append(pr)
        return out

    return Cmd(line, check, cell=cell, prop=prop)
