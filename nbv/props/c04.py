"""C04 - equal integers are indistinguishable: Eq, Ord, Hash and exports follow the value."""
import importlib

from ..core import (rng_for, rand_digits, M64, ndig, Cmd, U, I, X, S, W, PANIC, Problem, chk_big, chk_eq, parse_tok, BV, decode_named)
from ..oracles import tostr, words, mag_bytes_be, signed_bytes_be, radix_digits_le
from ..arith import tdivmod, STYPES

THOROUGH_SEEDS = 4   # the thorough tier repeats its staged workload over this many derived seeds
RULE = ('histories: a register file is driven through random sequences (40-120 steps) of constructors with redundant input '
        '(high zero words / bytes / digits, leading zeros and underscores in text, NoSign with non-zero magnitude, Plus/Minus '
        'with zero, sign-extended signed bytes), in-place operators += -= *= /= %= <<= >>= &= |= ^= (big and scalar operands), '
        'set_bit, set_zero, set_one, clone_from, inc/dec, neg/not on objects that first held a 300-digit value, and the same '
        'integer is deliberately reached by a second route (cancelling arithmetic, xor masks, shift round trips, constructor '
        'variants); then every comparison (== != cmp partial_cmp < <= > >= max min), the std hash, sort order and exports '
        '(digits, bytes, text) are compared with the integer model of the history; every intermediate register value is '
        'checked for canonical form.  Plus a slice of every other property\'s workload (canonical-form monitor on every '
        'result) and arbitrary/quickcheck generator outputs.  A cell is (route kind, kind, relation, length class) for '
        'comparisons and (step op, kind) for steps')
ASSUMPTIONS = ['the integer value of every register is tracked by a CPython model of the history']

OPPROP = {'+=': 'C01', '-=': 'C01', '*=': 'C02', '/=': 'C03', '%=': 'C03', '<<=': 'C07', '>>=': 'C07', '&=': 'C07', '|=': 'C07', '^=': 'C07'}


class Hist:
    """one history: model registers + the command list"""

    def __init__(self, rnd, hid):
        self.rnd = rnd
        self.cmds = []
        self.regs = {}   # name -> (kind, value)
        self.hid = hid
        self.cmds.append(Cmd('hreset', lambda res: [], cell=None, nontrivial=False, prop='C04'))

    def step(self, line, reg, kind, want, prop, what, cell):
        """a mutation / construction step: the driver echoes the register's value afterwards"""
        def check(res):
            if res.pos and res.pos[0] == 'P':
                if want is PANIC:
                    return []
                return [Problem({prop, 'C14'}, 'history step panicked: ' + what, '')]
            if want is PANIC:
                return [Problem({prop, 'C14'}, 'history step returned instead of panicking: ' + what, res.rawline)]
            return chk_big(prop, res.val(0), want, 'history step ' + what, kind)
        self.cmds.append(Cmd(line, check, cell=cell, prop=prop))
        if want is not PANIC:
            self.regs[reg] = (kind, want)

    # ---- constructors with redundancy -------------------------------------------------
    def construct(self, reg, kind, v):
        rnd = self.rnd
        assert kind == 'I' or v >= 0
        route = rnd.choice(['lit', 'new', 'slice', 'assign', 'bytes', 'radix', 'str', 'frombu'] if kind == 'I' else ['lit', 'new', 'slice', 'assign', 'bytes', 'radix', 'str'])
        m = abs(v)
        ks = 'U' if kind == 'U' else ('I-' if v < 0 else ('I+' if rnd.random() < 0.8 or v else 'I0'))
        if kind == 'I' and v == 0:
            ks = rnd.choice(('I+', 'I-', 'I0', 'I0'))
            if ks == 'I0' and route in ('new', 'slice', 'assign', 'bytes', 'radix') and rnd.random() < 0.7:
                # a NoSign request with a NON-zero magnitude payload also denotes zero
                m = rand_digits(rnd, rnd.choice((1, 2, 3)))
        if route == 'lit':
            pad = rnd.choice((0, 0, 8, 16, 40))
            self.step('hset %s %s' % (reg, U(m, pad) if kind == 'U' else (I(v, pad) if v else 'I0')), reg, kind, v, 'C09', 'from_slice with %d redundant hex zeros' % pad, ('ctor', 'lit', kind, pad > 0))
        elif route in ('new', 'slice', 'assign'):
            ws = words(m, 32) + [0] * rnd.choice((0, 0, 1, 2, 5))
            self.step('hnew %s %s %s %s' % (reg, ks, route, W(ws)), reg, kind, v, 'C09', route + ' with trailing zero words', ('ctor', route, kind, len(ws) % 2))
        elif route == 'bytes':
            if kind == 'I' and rnd.random() < 0.5 and ks != 'I0':
                sb = signed_bytes_be(v)
                ext = (b'\xff' if v < 0 else b'\x00') * rnd.choice((0, 1, 3, 9))
                be = ext + sb
                le = rnd.random() < 0.5
                self.step('hbytes %s IS %s %s' % (reg, 'le' if le else 'be', X(be[::-1] if le else be)), reg, kind, v, 'C09', 'from_signed_bytes with sign extension', ('ctor', 'sbytes', len(ext) > 0))
            else:
                be = b'\x00' * rnd.choice((0, 0, 1, 7, 8, 9)) + (mag_bytes_be(m) if m else b'')
                le = rnd.random() < 0.5
                self.step('hbytes %s %s %s %s' % (reg, ks, 'le' if le else 'be', X(be[::-1] if le else be)), reg, kind, v, 'C09', 'from_bytes with zero padding', ('ctor', 'bytes', kind, le))
        elif route == 'radix':
            radix = rnd.choice((2, 3, 8, 10, 16, 32, 64, 100, 128, 255, 256))
            ds = radix_digits_le(m, radix) + [0] * rnd.choice((0, 0, 1, 5, 30))
            le = rnd.random() < 0.5
            self.step('hradix %s %s %s %d %s' % (reg, ks, 'le' if le else 'be', radix, X(bytes(ds if le else ds[::-1]))), reg, kind, v, 'C06', 'from_radix with leading zero digits', ('ctor', 'radix', kind, radix))
        elif route == 'str':
            radix = rnd.choice((2, 8, 10, 16, 32, 36))
            s = '0' * rnd.choice((0, 0, 1, 20, 70)) + tostr(m, radix)
            if rnd.random() < 0.3 and len(s) > 1:
                s = s[0] + '_' + s[1:]
            if v < 0:
                s = '-' + s
            elif kind == 'I' and rnd.random() < 0.3:
                s = '+' + s
            elif kind == 'I' and v == 0 and rnd.random() < 0.5:
                s = '-' + s
            self.step('hstr %s %s %d %s' % (reg, kind, radix, S(s)), reg, kind, v, 'C06', 'from_str_radix with leading zeros', ('ctor', 'str', kind, radix))
        else:
            # from_biguint via a U register holding the magnitude (possibly with an inconsistent sign request)
            t = 'tu'
            self.construct(t, 'U', m)
            if v == 0:
                sign = rnd.choice((-1, 0, 1))
                if sign == 0 and rnd.random() < 0.5:
                    # NoSign with a NON-zero magnitude also denotes zero
                    self.construct(t, 'U', rand_digits(rnd, rnd.randrange(1, 4)))
            else:
                sign = 1 if v > 0 else -1
            self.step('hfrombu %s %d %s' % (reg, sign, t), reg, 'I', v, 'C19', 'from_biguint(%d, m)' % sign, ('ctor', 'frombu', sign))

    def lit(self, kind, v):
        """a scratch register holding v (plain literal)"""
        name = 't' + kind
        self.step('hset %s %s' % (name, U(v) if kind == 'U' else I(v)), name, kind, v, 'C09', 'literal', None)
        return name

    # ---- in-place operations ----------------------------------------------------------
    def op_big(self, reg, op, other):
        kind, a = self.regs[reg]
        _, b = self.regs[other]
        want = self.model_assign(kind, a, op, b)
        cmdname = self.rnd.choice(('hop', 'hopv'))
        self.step('%s %s %s %s' % (cmdname, reg, op, other), reg, kind, want, OPPROP[op], '%s %s (%s)' % (reg, op, cmdname), ('op', op, kind, cmdname))

    def op_scalar(self, reg, op, ty, s):
        kind, a = self.regs[reg]
        if op in ('<<=', '>>='):
            if s < 0:
                want = PANIC
            else:
                want = (a << s) if op == '<<=' else (a >> s)
        else:
            want = self.model_assign(kind, a, op, s)
        self.step('hops %s %s %s %d' % (reg, op, ty, s), reg, kind, want, OPPROP[op], '%s %s %s scalar' % (reg, op, ty), ('ops', op, kind, ty))

    @staticmethod
    def model_assign(kind, a, op, b):
        if op == '+=':
            return a + b
        if op == '-=':
            return PANIC if (kind == 'U' and a < b) else a - b
        if op == '*=':
            return a * b
        if op == '/=':
            return PANIC if b == 0 else tdivmod(a, b)[0]
        if op == '%=':
            return PANIC if b == 0 else tdivmod(a, b)[1]
        if op == '&=':
            return a & b
        if op == '|=':
            return a | b
        if op == '^=':
            return a ^ b
        raise ValueError(op)

    def setbit(self, reg, k, val):
        kind, a = self.regs[reg]
        want = (a | (1 << k)) if val else (a & ~(1 << k))
        self.step('hsetbit %s %d %d' % (reg, k, 1 if val else 0), reg, kind, want, 'C07', 'set_bit(%d,%s)' % (k, val), ('setbit', kind, val, a < 0))

    def simple(self, reg, what):
        kind, a = self.regs[reg]
        want = {'hzero': 0, 'hone': 1, 'hneg': -a, 'hnot': ~a, 'hinc': a + 1, 'hdec': (PANIC if kind == 'U' and a == 0 else a - 1)}[what]
        prop = {'hzero': 'C19', 'hone': 'C19', 'hneg': 'C19', 'hnot': 'C07', 'hinc': 'C13', 'hdec': 'C13'}[what]
        self.step('%s %s' % (what, reg), reg, kind, want, prop, what, ('simple', what, kind))

    def clone_from(self, reg, src, how):
        kind, v = self.regs[src]
        self.step('%s %s %s' % (how, reg, src), reg, kind, v, 'C04', how, ('clone', how, kind))

    # ---- observations -------------------------------------------------------------------
    def same(self, r1, r2, route):
        k1, a = self.regs[r1]
        k2, b = self.regs[r2]
        assert k1 == k2
        rel = (a > b) - (a < b)

        def check(res):
            out = []
            exp = {'eq': a == b, 'ne': a != b, 'cmp': rel, 'pcmp': rel, 'lt': a < b, 'le': a <= b, 'gt': a > b, 'ge': a >= b,
                   'maxa': (a >= b) if a != b else None, 'mina': (a <= b) if a != b else None,
                   'vmaxa': a >= b, 'vmina': a <= b, 'clampa': True, 'clampb': True}
            for nm, w in exp.items():
                got = res.get(nm)
                if w is None:
                    if got is PANIC:
                        out.append(Problem({'C04', 'C14'}, 'comparison %s panicked' % nm, ''))
                    continue
                if got is PANIC:
                    out.append(Problem({'C04', 'C14'}, 'comparison %s panicked (values %s)' % (nm, 'equal' if a == b else 'differ'), ''))
                elif got != w:
                    out.append(Problem('C04', 'comparison %s disagrees with the integer values (reached by: %s)' % (nm, route), 'got=%r want=%r' % (got, w)))
            if a == b:
                heq = res.get('heq')
                if heq is not True:
                    out.append(Problem('C04', 'equal integers hash differently (reached by: %s)' % route, 'heq=%r' % (heq,)))
            return out

        self.cmds.append(Cmd('hsame %s %s' % (r1, r2), check, cell=('same', route, k1, rel, min(ndig(a), 6), min(ndig(b), 6)), prop='C04'))

    def observe(self, reg):
        kind, v = self.regs[reg]
        m = abs(v)

        def check(res):
            out = chk_big('C04', res.val(0), v, 'observe', kind)

            def cmp(nm, want):
                got = res.get(nm)
                if got is PANIC:
                    out.append(Problem({'C04', 'C14'}, 'export %s panicked' % nm, ''))
                elif got != want:
                    out.append(Problem('C04', 'export %s does not follow the value' % nm, 'got=%r want=%r' % (got, want)))
            cmp('s10', ('s', str(v).encode()))
            cmp('s16', ('s', (('-' if v < 0 else '') + format(m, 'x')).encode()))
            if kind == 'U':
                cmp('be', mag_bytes_be(m))
                cmp('w32', words(m, 32))
                cmp('bits', m.bit_length())
            else:
                cmp('sbe', signed_bytes_be(v))
                cmp('w32', [(v > 0) - (v < 0), words(m, 32)])
                cmp('sign', (v > 0) - (v < 0))
            cmp('is_zero', v == 0)
            return out

        self.cmds.append(Cmd('hobs %s' % reg, check, cell=('obs', kind, (v > 0) - (v < 0), min(ndig(v), 6)), prop='C04'))

    def lit_compare(self, reg):
        kind, v = self.regs[reg]

        def check(res):
            out = []
            for nm, w in (('eq', True), ('cmp', 0), ('heq', True)):
                got = res.get(nm)
                if got is PANIC:
                    out.append(Problem({'C04', 'C14'}, 'comparison with a fresh literal panicked (%s)' % nm, ''))
                elif got != w:
                    out.append(Problem('C04', 'value reached by a history differs from a freshly built equal literal (%s)' % nm, 'got=%r' % (got,)))
            return out

        self.cmds.append(Cmd('hlit %s %s' % (reg, U(v) if kind == 'U' else I(v)), check, cell=('lit', kind, (v > 0) - (v < 0), min(ndig(v), 6)), prop='C04'))

    def sort(self, names):
        kind = self.regs[names[0]][0]
        vals = sorted(self.regs[n][1] for n in names)

        def check(res):
            out = []
            if res.pos and res.pos[0] == 'P':
                return [Problem({'C04', 'C14'}, 'sort panicked', '')]
            got = [parse_tok(t) for t in res.pos[:len(vals)]]
            if [g.v if isinstance(g, BV) else None for g in got] != vals:
                out.append(Problem('C04', 'sort order disagrees with numerical order', 'got=%r' % (got,)))
            out += chk_big('C04', res.get('max'), vals[-1], 'Iterator::max', kind)
            out += chk_big('C04', res.get('min'), vals[0], 'Iterator::min', kind)
            return out

        self.cmds.append(Cmd('hsort ' + ' '.join(names), check, cell=('sort', kind, len(names)), prop='C04'))


def reach_again(h, rnd, src, dst):
    """make register dst denote the same integer as src by a different route"""
    kind, v = h.regs[src]
    route = rnd.choice(['ctor', 'sub_down', 'xor', 'shift_rt', 'mul_div', 'and_or', 'bits', 'big_then_small', 'neg_neg', 'rem', 'clone_from', 'scalar_zero', 'scalar_zero'])
    if kind == 'U' and route == 'neg_neg':
        route = 'ctor'
    if route == 'ctor':
        h.construct(dst, kind, v)
    elif route == 'sub_down':
        w = v + rand_digits(rnd, rnd.choice((1, 2, 5, 40)))
        h.construct(dst, kind, w)
        t = h.lit(kind, w - v)
        h.op_big(dst, '-=', t)
    elif route == 'xor':
        w = rand_digits(rnd, rnd.choice((1, 3, 8, 30))) * (rnd.choice((1, -1)) if kind == 'I' else 1)
        h.construct(dst, kind, w)
        t = h.lit(kind, w ^ v)
        h.op_big(dst, '^=', t)
    elif route == 'shift_rt':
        h.construct(dst, kind, v)
        s = rnd.choice((1, 63, 64, 65, 200, 1000))
        ty = rnd.choice(('u8', 'u16', 'u32', 'u64', 'u128', 'usize', 'i16', 'i32', 'i64', 'i128', 'isize')) if s > 255 else rnd.choice(('u8', 'u32', 'i16', 'usize'))
        if s > STYPES[ty][1]:
            ty = 'u32'
        h.op_scalar(dst, '<<=', ty, s)
        h.op_scalar(dst, '>>=', rnd.choice(('u32', 'u64', 'i32', 'usize')), s)
    elif route == 'mul_div':
        k = rand_digits(rnd, rnd.choice((1, 2, 4))) or 3
        h.construct(dst, kind, v)
        t = h.lit(kind, k)
        h.op_big(dst, '*=', t)
        h.op_big(dst, '/=', t)
    elif route == 'and_or':
        # x & 0, then | v
        h.construct(dst, kind, rand_digits(rnd, rnd.choice((1, 6, 50))))
        t = h.lit(kind, 0)
        h.op_big(dst, '&=', t)
        t = h.lit(kind, v)
        h.op_big(dst, '|=', t)
    elif route == 'bits':
        # start from v with a few extra high bits set, then clear them
        extra = [abs(v).bit_length() + rnd.choice((1, 63, 64, 65, 300)) for _ in range(2)]
        if kind == 'I' and v < 0:
            h.construct(dst, kind, v)
            for e in extra:
                h.setbit(dst, e, False)
            for e in extra:
                h.setbit(dst, e, True)
        else:
            h.construct(dst, kind, v)
            for e in extra:
                h.setbit(dst, e, True)
            for e in extra:
                h.setbit(dst, e, False)
    elif route == 'big_then_small':
        # the object first holds a ~300-digit value, then is cut down in place
        h.construct(dst, kind, rand_digits(rnd, 300))
        which = rnd.choice(('zero_add', 'one_mul', 'rem', 'shr', 'clone_from', 'sub'))
        if which == 'zero_add':
            h.simple(dst, 'hzero')
            t = h.lit(kind, v)
            h.op_big(dst, '+=', t)
        elif which == 'one_mul':
            h.simple(dst, 'hone')
            t = h.lit(kind, v)
            h.op_big(dst, '*=', t)
        elif which == 'rem':
            kk, cur = h.regs[dst]
            mod = abs(v) + 1 + rand_digits(rnd, 2)
            t = h.lit(kind, mod)
            h.op_big(dst, '%=', t)
            kk, cur = h.regs[dst]
            if cur >= v or kind == 'I':
                t = h.lit(kind, cur - v) if (cur >= v or kind == 'I') else None
                h.op_big(dst, '-=', t)
            else:
                t = h.lit(kind, v - cur)
                h.op_big(dst, '+=', t)
        elif which == 'shr':
            h.op_scalar(dst, '>>=', 'u32', 64 * 299 + rnd.randrange(64))
            kk, cur = h.regs[dst]
            t = h.lit(kind, cur ^ v)
            h.op_big(dst, '^=', t)
        elif which == 'clone_from':
            h.clone_from(dst, src, 'hclonefrom')
        else:
            kk, cur = h.regs[dst]
            t = h.lit(kind, cur - v)
            h.op_big(dst, '-=', t)
    elif route == 'scalar_zero':
        # reach zero through a scalar: x *= s; x %= s (or x -= x via /=), for every scalar width incl. values above u64::MAX;
        # then add v back
        w = rand_digits(rnd, rnd.choice((1, 2, 3))) * (rnd.choice((1, -1)) if kind == 'I' else 1) or 5
        h.construct(dst, kind, w)
        ty = rnd.choice(('u8', 'u16', 'u32', 'u64', 'u128', 'usize') + (('i8', 'i16', 'i32', 'i64', 'i128', 'isize') if kind == 'I' else ()))
        lo, hi = STYPES[ty]
        s = rnd.choice((hi, hi - 1, (hi >> 1) + 1, lo if lo < 0 else 3, 7))
        h.op_scalar(dst, '*=', ty, s)
        h.op_scalar(dst, '%=', ty, s)
        t = h.lit(kind, v)
        h.op_big(dst, rnd.choice(('+=', '|=', '^=')), t)
    elif route == 'neg_neg':
        h.construct(dst, kind, -v)
        h.simple(dst, 'hneg')
    elif route == 'rem':
        q = rand_digits(rnd, rnd.choice((1, 3)))
        d = abs(v) + 1 + rand_digits(rnd, 1)
        w = q * d + abs(v)
        if kind == 'I' and v < 0:
            w = -w
        h.construct(dst, kind, w)
        t = h.lit(kind, d)
        h.op_big(dst, '%=', t)
    else:
        h.construct(dst, kind, rand_digits(rnd, rnd.choice((0, 1, 9, 100))))
        h.clone_from(dst, src, 'hclonefrom')
    return route


def random_value(rnd, kind):
    n = rnd.choice((0, 0, 1, 1, 2, 3, 5, 8, 20))
    fam = rnd.random()
    if fam < 0.15:
        v = rnd.choice((0, 1, 2, M64, 1 << 64, (1 << 64) - 1, (1 << 128), 1 << 63))
    elif fam < 0.3 and n:
        v = 1 << (64 * n - rnd.choice((0, 1, 64)) if 64 * n > 64 else 1)
    else:
        v = rand_digits(rnd, n)
    if kind == 'I' and rnd.random() < 0.5:
        v = -v
    return v


def make_history(rnd, hid, steps):
    h = Hist(rnd, hid)
    for kind in 'UI':
        names = ['%s%d' % (kind.lower(), i) for i in range(4)]
        for nm in names:
            h.construct(nm, kind, random_value(rnd, kind))
    n = 0
    while n < steps:
        kind = rnd.choice('UI')
        names = ['%s%d' % (kind.lower(), i) for i in range(4)]
        act = rnd.random()
        if act < 0.45:
            src, dst = rnd.sample(names, 2)
            route = reach_again(h, rnd, src, dst)
            h.same(src, dst, route)
            h.same(dst, src, route)
            h.observe(dst)
            h.lit_compare(dst)
            n += 6
        elif act < 0.75:
            # random in-place mutation keeping sizes bounded
            r = rnd.choice(names)
            k, a = h.regs[r]
            op = rnd.choice(('+=', '-=', '*=', '/=', '%=', '&=', '|=', '^=', '<<=', '>>=', 'setbit', 'simple', 'scalar'))
            if op in ('<<=', '>>='):
                s = rnd.choice((0, 1, 31, 63, 64, 65, 100, 200))
                if op == '<<=' and ndig(a) > 60:
                    op = '>>='
                h.op_scalar(r, op, rnd.choice(('u8', 'u16', 'u32', 'u64', 'usize', 'i32', 'i64', 'u128', 'i128', 'i8' if s < 128 else 'i16')), s)
            elif op == 'setbit':
                h.setbit(r, rnd.choice((0, 1, 63, 64, 65, abs(a).bit_length(), max(abs(a).bit_length() - 1, 0), abs(a).bit_length() + 70)), rnd.random() < 0.5)
            elif op == 'simple':
                h.simple(r, rnd.choice(('hzero', 'hone', 'hinc', 'hdec') + (('hneg', 'hnot') if k == 'I' else ())) if not (k == 'U' and a == 0) else 'hinc')
            elif op == 'scalar':
                ty = rnd.choice(('u8', 'u16', 'u32', 'u64', 'u128', 'usize') + (('i8', 'i16', 'i32', 'i64', 'i128', 'isize') if k == 'I' else ()))
                lo, hi = STYPES[ty]
                s = rnd.choice((1, 2, hi, lo if lo < 0 else 3, rnd.randrange(lo, hi + 1)))
                sop = rnd.choice(('+=', '-=', '*=', '/=', '%='))
                if sop in ('/=', '%=') and s == 0:
                    s = 1
                if k == 'U' and sop == '-=' and a < s:
                    sop = '+='
                if sop == '*=' and ndig(a) > 60:
                    sop = '/='
                h.op_scalar(r, sop, ty, s)
            else:
                o = rnd.choice([x for x in names if x != r])
                _, b = h.regs[o]
                if op in ('/=', '%=') and b == 0:
                    op = '+='
                if op == '-=' and k == 'U' and a < b:
                    op = rnd.choice(('+=', '^=', '|='))
                if op == '*=' and ndig(a) + ndig(b) > 80:
                    op = '&='
                h.op_big(r, op, o)
            n += 1
        elif act < 0.85:
            h.sort(names)
            a, b = rnd.sample(names, 2)
            h.same(a, b, 'independent')
            n += 2
        else:
            r = rnd.choice(names)
            h.observe(r)
            h.lit_compare(r)
            n += 2
    return h.cmds


def cmd_arb(kind, mode, data):
    line = 'arb %s %s %s' % (kind, mode, X(data))

    def check(res):
        out = []
        if res.pos and res.pos[0] in ('E',):
            return out
        if res.pos and res.pos[0] == 'P':
            return [Problem({'C04', 'C14'}, 'arbitrary generator panicked', '')]
        got = res.val(0)
        if isinstance(got, BV) and not got.canon:
            out.append(Problem('C04', 'arbitrary generator produced a non-canonical value', got.raw))
        for nm in ('selfeq', 'selfhash'):
            if res.get(nm) is not True:
                out.append(Problem('C04', 'arbitrary generator output: %s with an equal rebuilt value is not true' % nm, repr(res.get(nm))))
        return out

    return Cmd(line, check, cell=('arb', kind, mode, len(data) % 9, data[-8:] == bytes(8)), prop='C04')


def cmd_qc(kind, size, count):
    line = 'qc %s %d %d' % (kind, size, count)

    def check(res):
        out = []
        for t in res.pos:
            if t == 'P':
                out.append(Problem({'C04', 'C14'}, 'quickcheck generator/shrinker panicked', ''))
                continue
            g = parse_tok(t)
            if isinstance(g, BV) and not g.canon:
                out.append(Problem('C04', 'quickcheck generator/shrinker produced a non-canonical value', g.raw))
        for nm in ('selfeq', 'selfhash'):
            vals = res.get(nm)
            vals = vals if isinstance(vals, list) else [vals]
            if any(v is not True for v in vals):
                out.append(Problem('C04', 'quickcheck output: %s with an equal rebuilt value is not true' % nm, repr(vals)))
        return out

    return Cmd(line, check, cell=('qc', kind, size), prop='C04')


SLICES = [('c01', 0.02), ('c02', 0.1), ('c03', 0.1), ('c05', 0.03), ('c06', 0.25), ('c07', 0.25), ('c08', 0.2), ('c09', 0.05), ('c10', 0.15),
          ('c11', 0.3), ('c12', 0.3), ('c13', 0.5), ('c17', 0.5), ('c18', 0.3), ('c19', 1.0)]


def borrowed(tier, seed):
    cmds = []
    for name, scale in SLICES:
        mod = importlib.import_module('nbv.props.' + name)
        sc = scale if tier == 'quick' else min(1.0, scale * 4)
        try:
            cmds += mod.workload('quick', seed, sc)
        except TypeError:
            cmds += mod.workload('quick', seed)
    return cmds


def workload(tier, seed, scale=1.0):
    rnd = rng_for(seed, 'C04', tier)
    nh = int((600 if tier == 'quick' else 8000) * scale)
    groups = []
    for i in range(nh):
        groups.append(make_history(rnd, i, rnd.randrange(40, 121)))
    gen = []
    for kind in 'UI':
        for n in range(0, 80, 3):
            for fam in ('rand', 'zeros_tail', 'ones'):
                data = bytes({'rand': rnd.getrandbits(8), 'zeros_tail': (rnd.getrandbits(8) if i < n // 2 else 0), 'ones': 0xff}[fam] for i in range(n))
                gen.append(cmd_arb(kind, 'plain', data))
                gen.append(cmd_arb(kind, 'rest', data))
        for size in (1, 2, 5, 20, 60):
            gen.append(cmd_qc(kind, size, 6))
    return groups, gen


def stages(tier, seed):
    groups, gen = workload(tier, seed)
    bor = [[c] for c in borrowed(tier, seed)]
    allg = groups + [[c] for c in gen] + bor
    return [dict(label='rel', variant='rel', groups=allg), dict(label='dbg', variant='dbg', groups=allg)]
