"""C16 - all documented feature configurations build and compute identical results."""
import importlib, os, shutil, subprocess, sys, time
from concurrent.futures import ThreadPoolExecutor

from ..core import rng_for, Problem, VERIF, OUT
from .. import build, runner

THOROUGH_SEEDS = 2   # the thorough tier repeats its staged workload over this many derived seeds
RULE = ('(1) build matrix: the crate itself is compiled (cargo check in quick, cargo build + its own test suite in thorough) '
        'in the eleven configurations of ci/test_full.sh x {dev, release}; (2) transcript monitor: one deterministic script '
        '(a cross-section of every other property\'s workload, weighted toward the feature-conditional code: radix conversion '
        'size estimates and root initial guesses) is executed by driver builds {std all-features, std only, no_std} x '
        '{debug, release}; the event logs with probe fields stripped must be byte-identical and every log is also checked '
        'against the model. A cell is (configuration) for builds and (command kind, shape) for transcript entries')
ASSUMPTIONS = ['the build matrix is observed by running the compiler on a scratch copy of the manifest whose src/ is /repo/src',
               'result equality is decided on the recorded event logs of real executions in each configuration']

CONFIGS = [
    ('default', []),
    ('std+arbitrary', ['--no-default-features', '--features', 'std,arbitrary']),
    ('std+quickcheck', ['--no-default-features', '--features', 'std,quickcheck']),
    ('std+rand', ['--no-default-features', '--features', 'std,rand']),
    ('std+serde', ['--no-default-features', '--features', 'std,serde']),
    ('std+all', ['--no-default-features', '--features', 'std,arbitrary,quickcheck,rand,serde']),
    ('no_std', ['--no-default-features']),
    ('no_std+serde', ['--no-default-features', '--features', 'serde']),
    ('no_std+rand', ['--no-default-features', '--features', 'rand']),
    ('no_std+rand+serde', ['--no-default-features', '--features', 'rand,serde']),
    ('all-features', ['--all-features']),
]

_state = {'built': 0, 'configs': []}


def _c16_base():
    """scratch area of the build matrix: per checked tree (a trial against a scratch worktree must not share a package
    directory or target directories with a run against /repo)"""
    return os.path.join(OUT, 'c16') if build.REPO == '/repo' else build.DRIVER.rstrip('/') + '-c16'


def scratch_manifest():
    """a scratch package dir whose sources are /repo's working tree (symlinks), so building it
    never writes into /repo"""
    d = os.path.join(_c16_base(), 'pkg')
    os.makedirs(d, exist_ok=True)
    shutil.copy(os.path.join(build.REPO, 'Cargo.toml'), os.path.join(d, 'Cargo.toml'))
    lock = os.path.join(build.REPO, 'Cargo.lock')
    if not os.path.exists(lock):
        lock = os.path.join(VERIF, 'driver', 'Cargo.lock')
    shutil.copy(lock, os.path.join(d, 'Cargo.lock'))
    for sub in ('src', 'tests', 'benches', 'README.md'):
        link = os.path.join(d, sub)
        if os.path.islink(link) or os.path.exists(link):
            if os.path.islink(link):
                os.unlink(link)
        if os.path.exists(os.path.join(build.REPO, sub)) and not os.path.exists(link):
            os.symlink(os.path.join(build.REPO, sub), link)
    return d


def _c16_tbase():
    return os.path.join(VERIF, 'driver', 'target-c16') if build.REPO == '/repo' else build.DRIVER.rstrip('/') + '-c16-target'


def build_matrix(tier):
    import fcntl
    os.makedirs(_c16_base(), exist_ok=True)
    # one build matrix at a time per checked tree: concurrent runs would rewrite the scratch manifest under each other
    lock = open(os.path.join(_c16_base(), '.lock'), 'w')
    fcntl.flock(lock, fcntl.LOCK_EX)
    try:
        return _build_matrix(tier)
    finally:
        fcntl.flock(lock, fcntl.LOCK_UN)
        lock.close()


def _build_matrix(tier):
    sr = runner.StageResult()
    t0 = time.time()
    pkg = scratch_manifest()
    env = dict(build.BASE_ENV)
    jobs = []
    profiles = [('dev', [])] if tier == 'quick' else [('dev', []), ('release', ['--release'])]
    verb = 'check' if tier == 'quick' else 'build'
    for name, flags in CONFIGS:
        for pname, pflags in profiles:
            tdir = os.path.join(_c16_tbase(), name.replace('+', '_'))
            argv = ['cargo', verb, '--offline', '--manifest-path', os.path.join(pkg, 'Cargo.toml'), '--target-dir', tdir, '-j2'] + flags + pflags
            jobs.append((name, pname, argv))

    def run(job):
        name, pname, argv = job
        p = subprocess.run(argv, env=env, stdout=subprocess.PIPE, stderr=subprocess.STDOUT, text=True)
        return name, pname, p.returncode, p.stdout

    with ThreadPoolExecutor(max_workers=8) as ex:
        results = list(ex.map(run, jobs))
    for name, pname, rc, out in results:
        sr.evaluations += 1
        sr.events += 1
        if rc != 0 and 'could not compile' not in out:
            # cargo failed before / outside compiling the crate (manifest, workspace, lock, disk): a harness problem, not a
            # statement about the configuration
            sr.inconclusive.append('cargo could not start for configuration %s (%s): %s' % (name, pname, out.strip().splitlines()[0][:200] if out.strip() else 'no output'))
            continue
        if rc != 0:
            first = next((l for l in out.splitlines() if l.startswith('error')), out[-300:])
            loc = next((l.strip() for l in out.splitlines() if l.strip().startswith('-->')), '')
            pr = Problem('C16', 'configuration %s (%s) does not compile' % (name, pname), first + ' ' + loc)
            pr.cmd = 'cargo %s %s [%s]' % (verb, name, pname)
            pr.variant = 'build-matrix'
            sr.problems.append(pr)
        else:
            sr.cells.add(('build', name, pname))
    sr.samples.append({'build_matrix': ['%s/%s rc=%d' % (n, p, rc) for n, p, rc, _ in results]})
    # thorough: the repository's own test suite under each configuration (a free workload for
    # otherwise never-compiled code)
    if tier != 'quick':
        tjobs = []
        for name, flags in CONFIGS:
            tdir = os.path.join(_c16_tbase(), name.replace('+', '_'))
            argv = ['cargo', 'test', '--offline', '--manifest-path', os.path.join(pkg, 'Cargo.toml'), '--target-dir', tdir, '-j2', '--tests'] + flags
            tjobs.append((name, 'test', argv))
        with ThreadPoolExecutor(max_workers=6) as ex:
            tres = list(ex.map(run, tjobs))
        for name, pname, rc, out in tres:
            sr.evaluations += 1
            if rc != 0 and not any(r[0] == name and r[2] != 0 for r in results):
                failed = [l for l in out.splitlines() if l.startswith('test ') and l.endswith('FAILED')][:5]
                if not failed and 'could not compile' not in out:
                    sr.inconclusive.append('cargo test could not run for configuration %s: %s' % (name, out.strip().splitlines()[0][:200] if out.strip() else 'no output'))
                    continue
                pr = Problem('C16', 'the crate\'s own test suite fails in configuration %s' % name, ' '.join(failed) or out[-300:])
                pr.cmd = 'cargo test %s' % name
                pr.variant = 'build-matrix'
                sr.problems.append(pr)
            elif rc == 0:
                sr.cells.add(('suite', name))
    _state['configs'] = ['%s/%s' % (n, p) for n, p, rc, _ in results if rc == 0]
    sr.wall = time.time() - t0
    return sr


FEATURE_FREE = ('ser', 'de', 'rand', 'guardmode')
SOURCES = [('c06', 0.35), ('c11', 1.0), ('c01', 0.01), ('c02', 0.15), ('c03', 0.08), ('c05', 0.03), ('c07', 0.06), ('c08', 0.2),
           ('c09', 0.2), ('c10', 0.1), ('c12', 0.2), ('c13', 0.3), ('c19', 0.3)]


def transcript(tier, seed):
    cmds = []
    for name, scale in SOURCES:
        try:
            mod = importlib.import_module('nbv.props.' + name)
        except ImportError:
            continue
        sc = scale if tier == 'quick' else min(1.0, scale * 3)
        try:
            w = mod.workload('quick', seed, sc)
        except TypeError:
            w = mod.workload('quick', seed)
        cmds += [c for c in w if c.line.split(' ', 1)[0] not in FEATURE_FREE]
    for i, c in enumerate(cmds):
        c.uid = i
    return cmds


def stages(tier, seed):
    cmds = transcript(tier, seed)
    groups = [[c] for c in cmds]
    logs = {}

    def collector(v):
        def post(sr):
            logs[v] = dict(sr.raw)
        return post

    variants = ['rel', 'nostd-dbg', 'min-rel'] if tier == 'quick' else ['rel', 'dbg', 'nostd-rel', 'nostd-dbg', 'min-rel', 'min-dbg']
    st = [dict(label='build-matrix', custom=lambda: build_matrix(tier))]
    for v in variants:
        st.append(dict(label='transcript-' + v, variant=v, groups=groups, keep_raw=True, post=collector(v),
                       build_failure_is_violation=True))

    def compare():
        sr = runner.StageResult()
        ref = variants[0]
        if ref not in logs:
            sr.inconclusive.append('reference transcript (%s) was not produced' % ref)
            return sr
        for v in variants[1:]:
            if v not in logs:
                continue  # the build failure was already reported
            nd = 0
            for c in cmds:
                a = logs[ref].get(c.uid)
                b = logs[v].get(c.uid)
                sr.evaluations += 1
                if a is None or b is None:
                    continue
                if a != b:
                    nd += 1
                    if nd <= 5:
                        pr = Problem('C16', 'results differ between configurations %s and %s' % (ref, v), '%s: %s | %s: %s' % (ref, a[:300], v, b[:300]))
                        pr.cmd = c.line
                        pr.variant = ref + '|' + v
                        sr.problems.append(pr)
                else:
                    sr.cells.add((v, c.line.split(' ', 1)[0], c.cell[1] if isinstance(c.cell, tuple) and len(c.cell) > 1 else None))
            sr.samples.append({'compared': '%s vs %s' % (ref, v), 'entries': len(cmds), 'differing': nd})
        return sr

    st.append(dict(label='compare-logs', custom=compare))
    return st


def evidence_extra():
    return {'configurations_built': _state['configs']}
