"""C18 - random generation stays within the requested bounds and covers them."""
from ..core import rng_for, rand_digits, M64, ndig, Cmd, U, I, PANIC, Problem, chk_big, BV

THOROUGH_SEEDS = 3   # the thorough tier repeats its staged workload over this many derived seeds
RULE = ('deterministic byte-stream RNGs (scripted prefix + zero / ones / counter / splitmix tail) that log every byte handed out; '
        'the monitor decodes the same stream with an independent model: gen_biguint(n) = first ceil(n/32) little-endian u32 words '
        'with the top word shifted down, consuming exactly those bytes; bounded sampling = first candidate below the bound, '
        'consuming exactly that many draws; ranges = low + below(high-low) with the lbound=0 / ubound=0 special cases; Uniform '
        '(new / new_inclusive / sample_single / gen_range), RandomBits == gen_biguint/gen_bigint; bit sizes 0..=130, k*32, k*64+-1 '
        'up to 4160; bounds 1, 2, 2^k, 2^k+-1, multi-digit; for every bound <= 64 ALL first-draw values are enumerated with '
        'scripted streams; empty / inverted ranges and a zero bound must panic; a logical step budget bounds the rejection loop. '
        'A cell is (function, bit size or bound class, stream kind, rejections)')
ASSUMPTIONS = ['rand 0.8 semantics used by the model: Fill for [u32] = little-endian words of fill_bytes; Standard bool = top bit of next_u32',
               'the stream model is independent of the crate (CPython)']
FLOORS = ['RandReject']


class Stream:
    def __init__(self, script, tail):
        self.script = bytes(script)
        self.pos = 0
        self.tail = tail
        self.consumed = 0
        self.ctr = 0
        self.sm = int(tail[1:]) if tail[0] == 's' else 0
        self.buf = []

    def spec(self):
        return 'x%s:%s' % (self.script.hex(), self.tail)

    def byte(self):
        self.consumed += 1
        if self.pos < len(self.script):
            self.pos += 1
            return self.script[self.pos - 1]
        t = self.tail[0]
        if t == 'z':
            return 0
        if t == 'o':
            return 0xff
        if t == 'c':
            self.ctr = (self.ctr + 1) & M64
            return self.ctr & 0xff
        if not self.buf:
            self.sm = (self.sm + 0x9e3779b97f4a7c15) & M64
            z = self.sm
            z = ((z ^ (z >> 30)) * 0xbf58476d1ce4e5b9) & M64
            z = ((z ^ (z >> 27)) * 0x94d049bb133111eb) & M64
            z ^= z >> 31
            self.buf = list(z.to_bytes(8, 'big'))
        return self.buf.pop()

    def u32(self):
        return self.byte() | (self.byte() << 8) | (self.byte() << 16) | (self.byte() << 24)

    def boolean(self):
        return bool(self.u32() >> 31)


class Loop(Exception):
    pass


def m_biguint(st, n):
    nw = (n + 31) // 32
    ws = [st.u32() for _ in range(nw)]
    if n % 32:
        ws[-1] >>= 32 - n % 32
    return sum(w << (32 * i) for i, w in enumerate(ws))


def m_bigint(st, n):
    for _ in range(300):
        u = m_biguint(st, n)
        if u == 0:
            if st.boolean():
                continue
            return 0
        return u if st.boolean() else -u
    raise Loop()


def m_below(st, bound, rej=None):
    if bound == 0:
        return PANIC
    bits = bound.bit_length()
    for k in range(300):
        c = m_biguint(st, bits)
        if c < bound:
            if rej is not None:
                rej.append(k)
            return c
    raise Loop()


def m_urange(st, l, u, rej=None):
    if not l < u:
        return PANIC
    if l == 0:
        return m_below(st, u, rej)
    return l + m_below(st, u - l, rej)


def m_irange(st, l, u, rej=None):
    if not l < u:
        return PANIC
    if l == 0:
        return m_below(st, abs(u), rej)
    if u == 0:
        return l + m_below(st, abs(l), rej)
    return l + m_below(st, u - l, rej)


def model(fn, st, args, rej):
    if fn in ('biguint', 'rbits_u', 'rbits_gen_u'):
        return m_biguint(st, args[0])
    if fn in ('bigint', 'rbits_i'):
        return m_bigint(st, args[0])
    if fn == 'below':
        return m_below(st, args[0], rej)
    if fn in ('urange', 'single_u'):
        return m_urange(st, args[0], args[1], rej)
    if fn in ('irange', 'single_i'):
        return m_irange(st, args[0], args[1], rej)
    if fn in ('uni_u', 'uni_i'):
        if not args[0] < args[1]:
            return PANIC
        return args[0] + m_below(st, args[1] - args[0], rej)
    if fn in ('uni_u_inc', 'uni_i_inc'):
        if not args[0] <= args[1]:
            return PANIC
        return args[0] + m_below(st, args[1] + 1 - args[0], rej)
    if fn == 'range_u':
        return m_urange(st, args[0], args[1], rej)
    if fn == 'range_i':
        return m_irange(st, args[0], args[1], rej)
    if fn in ('range_u_inc', 'range_i_inc'):
        if not args[0] <= args[1]:
            return PANIC
        return args[0] + m_below(st, args[1] + 1 - args[0], rej)
    raise ValueError(fn)


KIND = {'biguint': 'U', 'rbits_u': 'U', 'rbits_gen_u': 'U', 'bigint': 'I', 'rbits_i': 'I', 'below': 'U', 'urange': 'U', 'single_u': 'U',
        'irange': 'I', 'single_i': 'I', 'uni_u': 'U', 'uni_i': 'I', 'uni_u_inc': 'U', 'uni_i_inc': 'I', 'range_u': 'U', 'range_i': 'I',
        'range_u_inc': 'U', 'range_i_inc': 'I'}


def cmd_rand(fn, script, tail, args, cellx):
    st = Stream(script, tail)
    kind = KIND[fn]
    rej = []
    try:
        want = model(fn, st, args, rej)
    except Loop:
        return None
    consumed = st.consumed
    if isinstance(args[0], int) and fn in ('biguint', 'bigint', 'rbits_u', 'rbits_i', 'rbits_gen_u'):
        argt = [str(args[0])]
    else:
        argt = [(U(a) if kind == 'U' else I(a)) for a in args]
    line = 'rand %s %s %s' % (fn, st.spec(), ' '.join(argt))

    def check(res):
        if res.budget:
            return [Problem({'C18', 'C14'}, '%s: rejection loop exceeded its step budget' % fn, '')]
        got = res.val(0)
        if fn in ('bigint', 'rbits_i') and isinstance(got, BV) and want is not PANIC and (got.v != want or res.val(1) != consumed):
            # the property fixes gen_bigint's range and canonical form, not which function of the stream it is: a value
            # different from this revision's (magnitude, then sign bit, zero re-drawn) is an observation, not a violation
            out = chk_big('C18', got, got.v, 'rand %s' % fn, kind)
            out.append(Problem({'NOTE'}, 'gen_bigint is a different function of the RNG stream than in the pinned revision', 'got=%r model=%s' % (got, want)))
            want_exact = False
        else:
            out = chk_big('C18', got, want, 'rand %s' % fn, kind)
            want_exact = True
        if fn.startswith('rbits'):
            ref = res.get('ref')
            if ref is not PANIC and got is not PANIC and (not (isinstance(ref, BV) and isinstance(got, BV) and (ref.kind, ref.v, ref.raw) == (got.kind, got.v, got.raw)) or res.get('refn') != res.val(1)):
                out.append(Problem('C18', 'RandomBits does not match %s on the same stream' % ('gen_bigint' if fn == 'rbits_i' else 'gen_biguint'),
                                   'got=%r consumed=%s ref=%r consumed=%s' % (got, res.val(1), ref, res.get('refn'))))
        if isinstance(got, BV):
            v = got.v
            # the bounds themselves, independent of the stream model
            if fn in ('biguint', 'rbits_u', 'rbits_gen_u') and not (0 <= v < (1 << args[0])):
                out.append(Problem('C18', '%s: result not below 2^n' % fn, repr(got)))
            if fn in ('bigint', 'rbits_i') and not (-(1 << args[0]) < v < (1 << args[0])):
                out.append(Problem('C18', '%s: result outside (-2^n, 2^n)' % fn, repr(got)))
            if fn == 'below' and not (0 <= v < args[0]):
                out.append(Problem('C18', 'gen_biguint_below: result not below the bound', repr(got)))
            if fn in ('urange', 'irange', 'single_u', 'single_i', 'uni_u', 'uni_i', 'range_u', 'range_i') and not (args[0] <= v < args[1]):
                out.append(Problem('C18', '%s: result outside [low, high)' % fn, repr(got)))
            if fn.endswith('_inc') and not (args[0] <= v <= args[1]):
                out.append(Problem('C18', '%s: result outside [low, high]' % fn, repr(got)))
        if want is not PANIC and got is not PANIC and want_exact:
            n = res.val(1)
            if n != consumed:
                out.append(Problem('C18', '%s: consumed %s bytes of the RNG stream, the documented function of the stream consumes %d' % (fn, n, consumed), ''))
        return out

    c = Cmd(line, check, cell=(fn,) + cellx + (tail[0], rej[0] if rej else None), prop='C18')
    return c


def workload(tier, seed, scale=1.0):
    rnd = rng_for(seed, 'C18', tier)
    quick = tier == 'quick'
    cmds = []

    def add(fn, script, tail, args, cellx):
        c = cmd_rand(fn, script, tail, args, cellx)
        if c is not None:
            cmds.append(c)

    tails = ['z', 'o', 'c', 's1', 's%d' % rnd.randrange(1 << 30)]
    sizes = sorted(set(list(range(0, 131)) + [k * 32 + d for k in range(4, 131, 7) for d in (-1, 0, 1)] + [k * 64 + d for k in (3, 8, 33, 64, 65) for d in (-1, 0, 1)]))
    for n in sizes:
        for tail in tails:
            if quick and n > 130 and tail in ('o', 'z'):
                continue
            script = bytes(rnd.getrandbits(8) for _ in range(rnd.choice((0, 3, 8, 40))))
            add('biguint', script, tail, [n], (n % 64, min(n // 64, 4)))
            if tail != 'z' or n < 40:
                add('bigint', script, tail, [n], (n % 64, min(n // 64, 4)))
            if n % 7 == 0:
                add('rbits_u', script, tail, [n], (n % 64,))
                add('rbits_i', script, tail, [n], (n % 64,))
                add('rbits_gen_u', script, tail, [n], (n % 64,))
    # gen_bigint sign / zero-retry paths: scripted zero candidates followed by chosen bool words
    for n in (0, 1, 5, 32, 33, 64, 65):
        nb = 4 * ((n + 31) // 32)
        for boolword in (b'\x00\x00\x00\x80', b'\x00\x00\x00\x00', b'\xff\xff\xff\x7f'):
            add('bigint', bytes(nb) + boolword + bytes(nb) + b'\x00\x00\x00\x00', 'c', [n], ('zero-retry', n))
            add('bigint', bytes([1] + [0] * (nb - 1)) + boolword if nb else boolword, 'z', [n], ('sign', n))
    # gen_bigint covers its whole range: every value of (-2^n, 2^n) is produced by some stream (model-independent)
    for n in (0, 1, 2, 3):
        def mk(n=n):
            full = list(range(-(1 << n) + 1, 1 << n))

            def check(res):
                vals = [v for v in (res.val(i) for i in range(len(res.pos))) if isinstance(v, BV) or v is PANIC]
                if any(v is PANIC for v in vals):
                    return [Problem({'C18', 'C14'}, 'gen_bigint panicked', '')]
                out = []
                for v in vals:
                    out += chk_big('C18', v, v.v if isinstance(v, BV) else 0, 'gen_bigint(%d)' % n, 'I')
                got = sorted(v.v for v in vals if isinstance(v, BV))
                if [g for g in got if not -(1 << n) < g < (1 << n)]:
                    out.append(Problem('C18', 'gen_bigint: result outside (-2^n, 2^n)', 'n=%d got=%r' % (n, got)))
                if [x for x in full if x not in got]:
                    out.append(Problem('C18', 'gen_bigint does not cover its range: some value of (-2^n, 2^n) is never produced over all 512 '
                                       'three-word top-bit streams', 'n=%d produced=%r' % (n, got)))
                return out
            return Cmd('rand cover_i x:c %d' % n, check, cell=('cover_i', n), prop='C18')
        cmds.append(mk())
    # exhaustive first draws for every bound <= 64
    for b in range(1, 65):
        bits = b.bit_length()
        for c in range(1 << bits):
            if quick and b > 20 and (c + b) % 3:
                continue
            script = c.to_bytes(4, 'little')
            add('below', script, 'z', [b], ('exh', b))
            if c % 5 == 0:
                add('urange', script, 'c', [7, 7 + b], ('exh-range', b))
                add('irange', script, 'c', [-b, 0], ('exh-ubound0', b))
                add('irange', script, 'c', [-3, b - 3], ('exh-cross', b))
                add('uni_i_inc', script, 'c', [-b + 1, 0], ('exh-inc', b))
    # bounds: 1, 2, 2^k, 2^k +- 1, multi-digit; forced rejections
    bounds = [1, 2, 3] + [(1 << k) + d for k in (8, 31, 32, 33, 63, 64, 65, 96, 127, 128, 129, 200) for d in (-1, 0, 1)] + [rand_digits(rnd, n, 0) for n in (1, 2, 3, 5)]
    for b in bounds:
        bits = b.bit_length()
        nb = 4 * ((bits + 31) // 32)
        for tail in ('z', 'c', 's7', 's%d' % rnd.randrange(1 << 20)):
            add('below', b'', tail, [b], ('bound', bits % 64))
            for nrej in (1, 2, 5, 31, 32, 33, 64, 200):
                # candidates equal to all-ones (>= bound unless bound = 2^bits) force rejections
                script = b'\xff' * (nb * nrej)
                add('below', script, tail, [b], ('bound-rej', bits % 64, nrej))
            lo = rnd.choice((0, 1, b // 2, b))
            add('urange', b'', tail, [lo, lo + b], ('range', bits % 64, lo == 0))
            add('single_u', b'', tail, [lo, lo + b], ('single', bits % 64, lo == 0))
            add('uni_u', b'', tail, [lo, lo + b], ('uni', bits % 64))
            add('uni_u_inc', b'', tail, [lo, lo + b - 1], ('uni-inc', bits % 64))
            add('range_u', b'', tail, [lo, lo + b], ('gen_range', bits % 64))
            add('range_u_inc', b'', tail, [lo, lo + b - 1], ('gen_range-inc', bits % 64))
            for l, u in ((-b, 0), (0, b), (-(b // 2) - 1, b - b // 2 - 1), (-3 * b, -2 * b), (b, 2 * b)):
                add('irange', b'', tail, [l, u], ('irange', bits % 64, l == 0, u == 0))
                add('single_i', b'', tail, [l, u], ('isingle', bits % 64, l == 0, u == 0))
                add('uni_i', b'', tail, [l, u], ('iuni', bits % 64))
                add('uni_i_inc', b'', tail, [l, u - 1], ('iuni-inc', bits % 64))
                add('range_i', b'', tail, [l, u], ('igen_range', bits % 64))
                add('range_i_inc', b'', tail, [l, u - 1], ('igen_range-inc', bits % 64))
    # ranges symmetric around zero with a power-of-two bound, and ranges whose ends both fit i64 / i128 but whose width does not
    sym = [(-(1 << k), 1 << k) for k in (0, 1, 2, 5, 31, 32, 63, 64, 65)]
    wide = [(-(1 << 63), (1 << 63) - 1), (-1, (1 << 63) - 1), (-(1 << 62), 1 << 62), (-(1 << 63), 1), (-(1 << 127), (1 << 127) - 1), (-(1 << 126), 1 << 126),
            (-(1 << 31), (1 << 31) - 1), (-(1 << 63) + 5, (1 << 62) + 9)]
    for l, u in sym + wide:
        for tail in ('z', 'o', 'c', 's11'):
            for fn in ('irange', 'single_i', 'uni_i', 'range_i'):
                add(fn, b'', tail, [l, u], ('sym-wide', fn, (u - l).bit_length()))
            add('uni_i_inc', b'', tail, [l, u - 1], ('sym-wide', 'inc', (u - l).bit_length()))
            add('range_i_inc', b'', tail, [l, u - 1], ('sym-wide', 'rinc', (u - l).bit_length()))
    # the lower bound of a symmetric power-of-two range must be reachable: all-zero candidate
    for k in (0, 1, 2, 3):
        for fn in ('irange', 'single_i', 'uni_i', 'range_i'):
            add(fn, b'', 'z', [-(1 << k), 1 << k], ('sym-low', fn, k))
    # multi-digit bounds with a scripted FIRST candidate that shares the bound's leading digit(s) and lies just below it (the
    # comparison with the bound must look past the top digit), or equals / exceeds it by one
    for b in ((1 << 64) + 1, (1 << 64) + 5, (3 << 64) + 7, (1 << 128) + 3, (1 << 128) + (1 << 64), (1 << 192) + 2, rand_digits(rnd, 2, 0), rand_digits(rnd, 3, 0)):
        bits = b.bit_length()
        nw = (bits + 31) // 32
        for cand in (b - 1, b - 2, (b >> 64) << 64, ((b >> 64) << 64) + 1, b, b + 1, b >> 1):
            if cand < 0 or cand.bit_length() > bits:
                continue
            script = cand.to_bytes(4 * nw, 'little')
            add('below', script, 'c', [b], ('lead-tie', ndig(b), cand < b))
            add('urange', script, 'c', [5, 5 + b], ('lead-tie-range', ndig(b), cand < b))
            add('irange', script, 'z', [-3, b - 3], ('lead-tie-irange', ndig(b), cand < b))
            add('uni_i', script, 'c', [-b, 0], ('lead-tie-uni', ndig(b), cand < b))
    # width-1 and equal-bounds inclusive ranges
    for x in (0, 1, -1, 5, -5, 1 << 64, -(1 << 64)):
        add('uni_i_inc', b'', 'c', [x, x], ('inc-eq',))
        add('range_i_inc', b'', 'c', [x, x], ('inc-eq',))
        add('irange', b'', 'c', [x, x + 1], ('width1',))
        add('single_i', b'', 'z', [x - 1, x], ('width1',))
        if x >= 0:
            add('uni_u_inc', b'', 'c', [x, x], ('inc-eq',))
            add('range_u_inc', b'', 'c', [x, x], ('inc-eq',))
            add('urange', b'', 'c', [x, x + 1], ('width1',))
    # documented panics: zero bound, empty / inverted ranges - across operand sizes
    add('below', b'', 'c', [0], ('panic',))
    for x in (0, 5, 1 << 70, rand_digits(rnd, 5, 0)):
        add('urange', b'', 'c', [x, x], ('panic-empty',))
        add('urange', b'', 'c', [x + 1, x], ('panic-inv',))
        add('single_u', b'', 'c', [x + 1, x], ('panic-inv',))
        add('uni_u', b'', 'c', [x, x], ('panic-empty',))
        add('uni_u', b'', 'c', [x + 2, x], ('panic-inv',))
        add('range_u', b'', 'c', [x + 2, x], ('panic-inv',))
        add('urange', b'', 'c', [x + (1 << 70), x], ('panic-inv-far',))
        add('uni_u_inc', b'', 'c', [x + 1, x], ('panic-inv',))
        add('range_u', b'', 'c', [x, x], ('panic-empty',))
        add('range_u_inc', b'', 'c', [x + 1, x], ('panic-inv',))
        for s in (1, -1):
            add('irange', b'', 'c', [s * x, s * x], ('panic-empty',))
            add('irange', b'', 'c', [s * x + 1, s * x], ('panic-inv',))
            add('single_i', b'', 'c', [s * x + 1, s * x], ('panic-inv',))
            add('uni_i', b'', 'c', [s * x, s * x], ('panic-empty',))
            add('uni_i', b'', 'c', [s * x + 2, s * x], ('panic-inv',))
            add('uni_i', b'', 'c', [abs(x) + 3, -abs(x) - 3], ('panic-inv-cross',))
            add('range_i', b'', 'c', [s * x + 2, s * x], ('panic-inv',))
            add('irange', b'', 'c', [abs(x) + 3, -abs(x) - 3], ('panic-inv-cross',))
            add('uni_i_inc', b'', 'c', [s * x + 1, s * x], ('panic-inv',))
            add('range_i', b'', 'c', [s * x, s * x], ('panic-empty',))
            add('range_i_inc', b'', 'c', [s * x + 1, s * x], ('panic-inv',))
    return cmds


def stages(tier, seed):
    from ..cross import cross_stages, portable
    cmds = workload(tier, seed)
    groups = [[c] for c in cmds]
    st = [dict(label='rel', variant='rel', groups=groups, floors=FLOORS), dict(label='dbg', variant='dbg', groups=groups, floors=FLOORS),
          dict(label='nostd-rel', variant='nostd-rel', groups=groups, floors=FLOORS)]
    # digit-width and endianness independence: the same script under Miri for a 32-bit-digit target (i686) and a
    # big-endian target (s390x) must give the identical event log (and is checked by the same stream model)
    sub = portable(cmds)[::(20 if tier == 'quick' else 3)]
    st += cross_stages('C18', sub, dict(label='x-rel', variant='rel'),
                       [dict(label='miri-i686', variant='miri-i686', tool='miri:i686', shard_min=8, timeout=1500),
                        dict(label='miri-s390x', variant='miri-s390x', tool='miri:s390x', shard_min=8, timeout=1500)],
                       'gen_* must be a platform-independent function of the RNG stream')
    return st
