"""C03 - division yields the unique quotient/remainder of each rounding convention."""
from ..core import rng_for, rand_digits, M64, ndig
from ..arith import cmd_divall, cmd_bb, cmd_sf, cmd_srem, UTYPES, ITYPES, STYPES, scalar_extremes

B = 1 << 64
THOROUGH_SEEDS = 3   # the thorough tier repeats its staged workload over this many derived seeds
RULE = ('(a) sweep of divisor length x dividend length x every normalisation shift 0..63 of the divisor top digit; '
        '(b) constructed inputs that force the rare branches of the long-division loop (add-back, top remainder digit '
        '== divisor top digit, 1-2 refinement iterations), confirmed reached by probes; (c) a<b, a=b, exact multiples, '
        'divisor 1, single-digit divisors, zero divisor for every API; every case through all 14-15 division APIs x sign '
        'combinations, operator forms and scalar-dividend forms; each reported (q,r) is also tested against the defining '
        'conditions a=q*b+r and the range/sign of r. A cell is (kind, signs, divisor len, dividend len class, shift, family); '
        'non-trivial if the multi-digit division core ran')
ASSUMPTIONS = ['CPython divmod is the reference; conventions derived from it are also re-asserted as the uniqueness conditions on the reported pair']
FLOORS = ['DivCoreStep', 'DivA0LtB0', 'DivA0EqB0', 'DivRefine', 'DivAddBack', 'DivShiftZero', 'DivShiftNonZero', 'DivSingleDigit']


def core_ran(res):
    return 'DivCoreStep' in res.probes


def lc(n):
    return n if n <= 16 else 16 + (n - 16) // 8


def add(cmds, a, b, fam, rnd, kinds=('U', 'I'), signs=None):
    dl, al = ndig(b), ndig(a)
    sh = (64 - (abs(b) >> (64 * (dl - 1))).bit_length()) if b else -1
    if 'U' in kinds:
        cmds.append(cmd_divall('C03', a, b, 'U', cell=('U', dl, lc(al), sh, fam), nontrivial=core_ran))
    if 'I' in kinds:
        for (sa, sb) in (signs or [rnd.choice(((1, 1), (1, -1), (-1, 1), (-1, -1))), rnd.choice(((-1, 1), (-1, -1), (1, -1)))]):
            cmds.append(cmd_divall('C03', sa * a, sb * b, 'I', cell=('I', sa, sb, dl, lc(al), sh, fam), nontrivial=core_ran))


def constructed(rnd, n_each):
    """(family, a, b) triples that reach the rare branches"""
    out = []
    # add-back: a = (Q+1)*v - k, v >= 3 digits with all-ones low digit
    for _ in range(n_each):
        n = rnd.randrange(3, 8)
        sh = rnd.choice((0, 0, rnd.randrange(1, 64)))
        v = rnd.getrandbits(64 * n) | (1 << (64 * n - 1)) | M64
        if sh:
            v >>= sh
            v |= (1 << (64 - sh)) - 1
        Q = rnd.getrandbits(64 * rnd.randrange(1, 4)) | 1
        q0, v0 = Q & M64, v & M64
        k = rnd.randrange(1, (q0 + 1) * v0 + 1) if rnd.random() < 0.5 else rnd.randrange(1, 1 << rnd.randrange(1, 60))
        a = (Q + 1) * v - k
        if a > 0:
            out.append(('addback', a, v))
    # a0 == b0: running remainder r = v - t keeps the divisor's top digit
    for _ in range(n_each):
        n = rnd.randrange(2, 7)
        b0 = rnd.choice((1 << 63, (1 << 63) + 1, M64, rnd.getrandbits(64) | (1 << 63)))
        b1 = rnd.choice((0, 1, M64, M64 - 1, rnd.getrandbits(64), b0, b0 + 1 if b0 < M64 else 0))
        low = rnd.getrandbits(64 * (n - 2)) if n > 2 else 0
        v = (b0 << (64 * (n - 1))) | (b1 << (64 * (n - 2))) | low
        sh = rnd.choice((0, 0, rnd.randrange(1, 64)))
        lowpart = v & ((1 << (64 * (n - 1))) - 1)
        if lowpart == 0:
            continue
        t = rnd.choice((1, lowpart, rnd.randrange(1, lowpart + 1), min(lowpart, 1 << rnd.randrange(1, 64 * (n - 1) + 1))))
        r = v - t
        j = rnd.randrange(1, 4)
        lowd = rnd.choice((0, (1 << (64 * j)) - 1, rnd.getrandbits(64 * j)))
        a = (r << (64 * j)) | lowd
        if sh:
            # un-normalised divisor: shift both down so the library has to normalise by `sh`
            v2 = v >> sh
            if v2 and ndig(v2) == n:
                out.append(('a0eqb0_sh', a >> sh, v2))
        out.append(('a0eqb0', a, v))
        # also the classic v*B^j - k
        k = rnd.randrange(1, 1 << rnd.randrange(1, 64 * (n - 1) + 1))
        out.append(('a0eqb0_k', v * (B ** j) - k, v))
    # refinement loop: divisor [*, small/any, 2^63..], dividend [*, MAX.., top just below]
    for _ in range(n_each):
        n = rnd.randrange(2, 6)
        b0 = rnd.choice((1 << 63, (1 << 63) + 1, (1 << 63) + rnd.getrandbits(20)))
        b1 = rnd.choice((M64, M64 - 1, rnd.getrandbits(64) | (1 << 63), 1 << 63))
        v = (b0 << (64 * (n - 1))) | (b1 << (64 * (n - 2))) | (rnd.getrandbits(64 * (n - 2)) if n > 2 else 0)
        top = rnd.choice((b0 - 1, b0 - 2, rnd.randrange(1, b0)))
        a1 = rnd.choice((M64, M64 - 1, rnd.getrandbits(64)))
        a2 = rnd.choice((0, 1, rnd.getrandbits(64)))
        m = n + rnd.randrange(0, 3)
        a = (top << (64 * m)) | (a1 << (64 * (m - 1))) | (a2 << (64 * (m - 2)) if m >= 2 else 0) | (rnd.getrandbits(64 * (m - 2)) if m > 2 else 0)
        out.append(('refine', a, v))
    # small quotients with the same digit count: a = q*v + r for q in 1..4 with the top digits in a 1:q relation
    # (a "quotient is one" shortcut must not fire for q = 2), incl. divisors whose doubling does not carry
    for _ in range(n_each):
        n = rnd.randrange(2, 7)
        top = rnd.choice((1, 2, 3, rnd.getrandbits(20) | 1, (1 << 61) - 1, (1 << 62) - 1, rnd.getrandbits(62) | 1))
        v = (top << (64 * (n - 1))) | rnd.getrandbits(64 * (n - 1))
        for q in (1, 2, 3, 4):
            for r in (0, 1, rnd.randrange(0, v), v - 1, rnd.getrandbits(40) % v):
                out.append(('small-quotient', q * v + r, v))
    # the running remainder vanishes for several steps while the low part of the dividend is still >= the divisor:
    # a = (v << 64m) + k*v + r with m >= 2*len(v) + 1
    for _ in range(n_each // 2 + 1):
        n = rnd.randrange(2, 5)
        v = rnd.getrandbits(64 * n) | (1 << (64 * n - 1 - rnd.randrange(0, 64)))
        m = 2 * n + rnd.randrange(1, 4)
        for k in (0, 1, 7, rnd.getrandbits(64), rnd.getrandbits(64 * n)):
            r = rnd.choice((0, 11, rnd.randrange(0, v)))
            out.append(('vanishing-remainder', (v << (64 * m)) + k * v + r, v))
            out.append(('vanishing-remainder', ((v * rnd.randrange(1, 1 << 64)) << (64 * m)) + k * v + r, v))
    # dividend and divisor sharing whole low zero digits, with a non-zero remainder (the by-value forms may strip them)
    for _ in range(n_each // 2 + 1):
        z = rnd.randrange(1, 4)
        v0 = rand_digits(rnd, rnd.randrange(1, 5), 0)
        q = rand_digits(rnd, rnd.randrange(1, 4), 0)
        r0 = rnd.randrange(1, v0) if v0 > 1 else 0
        out.append(('shared-low-zeros', (q * v0 + r0) << (64 * z), v0 << (64 * z)))
        out.append(('shared-low-zeros', ((q * v0 + r0) << (64 * z)) + rnd.getrandbits(64 * z), v0 << (64 * z)))
    return out


def workload(tier, seed, scale=1.0):
    rnd = rng_for(seed, 'C03', tier)
    cmds = []
    quick = tier == 'quick'
    # (a) length x shift sweep
    dls = range(1, 11) if quick else range(1, 13)
    als = range(0, 31) if quick else range(0, 49)
    for dl in dls:
        for al in als:
            shifts = sorted({(dl * 7 + al * 11 + i * 8) % 64 for i in range(8)}) if quick else range(64)
            for sh in shifts:
                if scale < 1.0 and rnd.random() > scale:
                    continue
                topd = (rnd.getrandbits(64) | (1 << 63)) >> sh
                b = (topd << (64 * (dl - 1))) | rnd.getrandbits(64 * (dl - 1))
                a = rand_digits(rnd, al, rnd.choice((0, 0, 1, 3, 4)))
                if dl == 1 and rnd.random() < 0.3:
                    b = rnd.choice((1, 2, 3, (1 << 32) - 1, 1 << 32, (1 << 32) + 1, M64, 1 << 63, 10))
                add(cmds, a, b, 'sweep', rnd, kinds=('U', 'I') if (sh % 4 == 0 or not quick) else ('U',))
    # (b) constructed rare branches
    for fam, a, b in constructed(rnd, int((150 if quick else 1500) * scale)):
        add(cmds, a, b, fam, rnd)
    forms = [(fam, a, b) for fam, a, b in constructed(rng_for(seed + 7, 'C03', tier), 12 if quick else 60) if fam in ('shared-low-zeros', 'small-quotient', 'vanishing-remainder')]
    for fam, a, b in forms:
        for op in ('div', 'rem'):
            cmds.append(cmd_bb('C03', op, a, b, 'U', cell=('bb-' + fam, op, 'U', min(ndig(b), 6))))
            sa, sb = rnd.choice((1, -1)), rnd.choice((1, -1))
            cmds.append(cmd_bb('C03', op, sa * a, sb * b, 'I', cell=('bb-' + fam, op, 'I', sa, sb)))
        if ndig(b) == 2:
            cmds.append(cmd_sf('C03', 'rem', 'u128', a, b, 'U', cell=('sf-' + fam, 'u128')))
            cmds.append(cmd_sf('C03', 'div', 'u128', a, b, 'U', cell=('sf-' + fam, 'u128d')))
    # (c) special relations
    for n in list(range(1, 9)) + [15, 40]:
        v = rand_digits(rnd, n, 0)
        w = rand_digits(rnd, rnd.randrange(1, n + 1), 0)
        for fam, a, b in (('equal', v, v), ('a_lt_b', w - 1 if w > 1 else w, v + 1), ('multiple', v * w, v), ('multiple+1', v * w + 1, v),
                          ('multiple-1', v * w - 1, v), ('by_one', v, 1), ('zero_dividend', 0, v), ('pow2', 1 << (64 * n), v),
                          ('b_pow2', v * w, 1 << (64 * (n - 1))), ('b_allones', v * w, (1 << (64 * n)) - 1)):
            if b > 0 and a >= 0:
                add(cmds, a, b, fam, rnd, signs=[(1, 1), (1, -1), (-1, 1), (-1, -1)])
    # special-value pool pairs (type boundaries, word boundaries, exact powers)
    from ..core import special_values
    pool = special_values()
    for a in pool:
        for b in (pool if not quick else pool[::4] + [a, a + 1]):
            if b == 0 or (scale < 1.0 and rnd.random() > scale):
                continue
            add(cmds, a, b, 'pool', rnd, signs=[(1, 1), (-1, 1), (1, -1), (-1, -1)] if not quick else None)
    # zero divisor: every API must panic, every checked_* must return None - across operand sizes
    for n in (0, 1, 2, 5, 40):
        a = rand_digits(rnd, n, 0)
        cmds.append(cmd_divall('C03', a, 0, 'U', cell=('U', 'zero_divisor', n)))
        for s in (1, -1):
            cmds.append(cmd_divall('C03', s * a, 0, 'I', cell=('I', 'zero_divisor', n, s)))
        for op in ('div', 'rem'):
            cmds.append(cmd_bb('C03', op, a, 0, 'U', cell=('bb', op, 'U', 'zero_divisor', n)))
            cmds.append(cmd_bb('C03', op, -a, 0, 'I', cell=('bb', op, 'I', 'zero_divisor', n)))
    # primitive-boundary operands: a quotient / dividend that overflows a native fast path (iN::MIN / -1, uN::MAX / 1, ...)
    for nb in (8, 16, 32, 64, 128):
        lo, hi, um = -(1 << (nb - 1)), (1 << (nb - 1)) - 1, (1 << nb) - 1
        for a in (lo, lo + 1, lo - 1, hi, hi + 1, um, um + 1, -um, -um - 1):
            for b in (-1, 1, 2, -2, lo, hi, um, -um, lo + 1, hi + 1):
                cmds.append(cmd_divall('C03', a, b, 'I', cell=('prim-boundary', nb, (a > 0) - (a < 0), (b > 0) - (b < 0), abs(b) == 1)))
                for op in ('div', 'rem'):
                    cmds.append(cmd_bb('C03', op, a, b, 'I', cell=('bb-prim-boundary', op, nb, a == lo, b == -1)))
                if a >= 0 and b > 0:
                    cmds.append(cmd_divall('C03', a, b, 'U', cell=('prim-boundary', nb, 'U', abs(b) == 1)))
    # operator forms on a cross-section (val/ref/assign) - also feeds C10
    sample = [c for c in cmds if c.line.startswith('divall')]
    step = max(1, len(sample) // (400 if quick else 3000))
    for c in sample[::step]:
        t = c.line.split(' ')
        for op in ('div', 'rem'):
            kind = t[1][0]
            a = parse_lit(t[1])
            b = parse_lit(t[2])
            cmds.append(cmd_bb('C03', op, a, b, kind, cell=('bb', op, kind, ndig(b), lc(ndig(a))), nontrivial=core_ran))
    # scalar divisors / scalar dividends for every scalar type (forms) incl. zero
    for ty in UTYPES + ITYPES:
        for sv in scalar_extremes(ty)[::(2 if quick else 1)]:
            for n in (0, 1, 2, 3, 6):
                a = rand_digits(rnd, n, 0)
                if ty in UTYPES:
                    for op in ('div', 'rem'):
                        cmds.append(cmd_sf('C03', op, ty, a, sv, 'U', cell=('sf', op, ty, 'U', n, sv.bit_length())))
                sa = rnd.choice((1, -1))
                for op in ('div', 'rem'):
                    cmds.append(cmd_sf('C03', op, ty, sa * a, sv, 'I', cell=('sf', op, ty, 'I', sa * n, sv.bit_length(), sv < 0)))
            # scalar %= BigUint
            for bv in (0, 1, 2, 127, 128, 255, 256, 1 << 15, 1 << 31, 1 << 63, 1 << 64, (1 << 127), 1 << 128, abs(sv), abs(sv) + 1, max(abs(sv) - 1, 0), rnd.getrandbits(70) | 1):
                cmds.append(cmd_srem('C03', ty, sv, bv, cell=('srem', ty, sv.bit_length(), sv < 0, bv.bit_length())))
    # seeded random
    for _ in range(int((1500 if quick else 20000) * scale)):
        la = int((60 if quick else 600) ** rnd.random())
        lb = max(1, int((30 if quick else 300) ** rnd.random()))
        add(cmds, rand_digits(rnd, la), rand_digits(rnd, lb), 'rand', rnd)
    return cmds


def parse_lit(t):
    if t[0] == 'U':
        return int(t[1:], 16) if len(t) > 1 else 0
    if t == 'I0':
        return 0
    v = int(t[2:], 16) if len(t) > 2 else 0
    return -v if t[1] == '-' else v


def stages(tier, seed):
    cmds = workload(tier, seed)
    groups = [[c] for c in cmds]
    st = [dict(label='rel', variant='rel', groups=groups, floors=FLOORS),
          dict(label='dbg', variant='dbg', groups=groups, floors=FLOORS)]
    if tier != 'quick':
        # the portable div_wide / div_half paths (no hardware div) and 32-bit digits, interpreted by Miri
        from ..cross import portable
        rnd = rng_for(seed, 'C03x', tier)
        small = [c for c in portable(cmds) if len(c.line) < 1200 and c.line.startswith('divall')]
        sub = rnd.sample(small, min(len(small), 1200))
        st.append(dict(label='miri-aarch64', variant='miri-aarch64', tool='miri:aarch64', groups=[[c] for c in sub], shard_min=8, timeout=2400))
        st.append(dict(label='miri-i686', variant='miri-i686', tool='miri:i686', groups=[[c] for c in sub], shard_min=8, timeout=2400))
    return st
