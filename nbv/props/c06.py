"""C06 - text and radix conversions are exact, canonical and mutually inverse."""
from ..core import rng_for, rand_digits, M64, ndig
from ..oracles import (cmd_tostr, cmd_fmt, cmd_toradix, cmd_fromstr, cmd_parsebytes, cmd_fromradix, tostr, radix_digits_le, FMT, DIG)

THOROUGH_SEEDS = 8   # the thorough tier repeats its staged workload over this many derived seeds
RULE = ('output: every radix 2..=36 (text) and 2..=256 (digit vectors) x values 0, one digit, 63/64/65 digits (big-base '
        'threshold), ~200 digits, k*radix^j, radix^k-1, radix^k and lengths chosen so the output length takes every residue '
        'of the per-radix chunk power; 40 compile-time format specs x runtime widths x signs, cross-checked against the same '
        'spec applied to the u128/i128 primitive; input: grammar-aware strings per radix (signs, leading zeros, underscores, '
        'both cases, every chunk residue, long inputs) and near-misses (empty, lone sign, +-, -+, ++, leading _, digit = radix, '
        'non-ASCII, NUL/space, invalid UTF-8), digit slices incl. empty / all-zero / digit = radix / radix 256; each emitted '
        'text is parsed back. A cell is (api, radix, length class/residue, family); non-trivial unless the value is 0')
ASSUMPTIONS = ['expected text comes from repeated divmod on CPython ints; the accepted input language is an explicit byte-wise recogniser written from the documented grammar; pad_integral rules re-implemented from the std documentation and validated against primitive integers']
FLOORS = ['FromBitwiseExact', 'FromBitwiseInexact', 'FromRadixHeadFull', 'FromRadixHeadPartial', 'ToBitwiseInexact', 'ToRadixBigBase', 'ToRadixBigBaseIter', 'ToRadixSmallLoop']


def chunk_power(radix):
    p, b = 1, radix
    while b * radix <= M64:
        b *= radix
        p += 1
    return p


def values_for_radix(rnd, radix, quick):
    """(family, value) list for output tests"""
    out = [('zero', 0), ('one', 1), ('r-1', radix - 1), ('r', radix), ('u64max', M64), ('2^64', 1 << 64)]
    p = chunk_power(radix) if radix & (radix - 1) else 8
    # output length takes every residue mod chunk power (sampled in quick)
    lens = list(range(1, 2 * p + 2)) if not quick else sorted(set([1, 2, p - 1, p, p + 1, 2 * p - 1, 2 * p, 2 * p + 1] + [rnd.randrange(1, 2 * p + 2) for _ in range(3)]))
    for L in lens:
        if L < 1:
            continue
        lo = radix ** (L - 1)
        out.append(('len%d' % (L % p), rnd.randrange(lo, lo * radix)))
    k = rnd.randrange(2, 40)
    out += [('r^k', radix ** k), ('r^k-1', radix ** k - 1), ('k*r^j', rnd.randrange(1, radix) * radix ** k), ('zeros_inside', radix ** (k + 9) + rnd.randrange(radix))]
    return out


def big_values(rnd, quick):
    out = []
    for n in ((63, 64, 65, 200) if quick else (62, 63, 64, 65, 66, 100, 128, 200, 300)):
        out.append(('big%d' % n, rand_digits(rnd, n, 0)))
    out.append(('big64ones', (1 << (64 * 64)) - 1))
    out.append(('big64pow', 1 << (64 * 64 - 1)))
    return out


def valid_string(rnd, v, radix, kind):
    """a well-formed spelling of v: sign variants, leading zeros, underscores, mixed case"""
    s = tostr(abs(v), radix)
    s = ''.join(c.upper() if rnd.random() < 0.5 else c for c in s)
    if rnd.random() < 0.4:
        s = '0' * rnd.randrange(1, 70) + s
    if rnd.random() < 0.5:
        # underscores anywhere after the first digit
        chars = list(s)
        for _ in range(rnd.randrange(1, 4)):
            chars.insert(rnd.randrange(1, len(chars) + 1), '_' * rnd.randrange(1, 3))
        s = ''.join(chars)
    if v < 0:
        s = '-' + s
    elif rnd.random() < 0.3:
        s = '+' + s
    return s


def near_misses(rnd, radix):
    d = DIG[rnd.randrange(radix)]
    bad = DIG[radix] if radix < 36 else '~'
    cand = ['', '+', '-', '+-' + d, '-+' + d, '++' + d, '--' + d, '_' + d, '+_' + d, '-_' + d, d + bad, bad, d + ' ', ' ' + d, d + '\x00',
            d + 'é', 'é', d + '.', d + '+', d + '-' + d, '0x' + d if radix <= 33 else '0~', d + '_', '_', '__', d + '__' + d, '+' + d, '-' + d, '-0', '+0', '-_', '٣']
    if radix <= 10:
        cand += ['a', 'A', 'z']
    return cand


def workload(tier, seed, scale=1.0):
    rnd = rng_for(seed, 'C06', tier)
    quick = tier == 'quick'
    cmds = []
    bigs = big_values(rnd, quick)
    for radix in range(2, 257):
        vals = values_for_radix(rnd, radix, quick)
        pick_bigs = bigs if (not quick or radix in (2, 3, 7, 8, 10, 16, 32, 36, 64, 100, 128, 255, 256)) else [rnd.choice(bigs)]
        # values above the big-base threshold whose output has long interior zero runs: radix^k + small,
        # a*radix^k + b*radix^j + c (k chosen so that the value has well over 64 native digits)
        import math
        kmin = int(64 * 64 / math.log2(radix)) + 5
        sparse = []
        for _ in range(2 if quick else 5):
            k = kmin + rnd.randrange(0, kmin)
            j = rnd.randrange(1, k)
            sparse.append(('sparse_big', radix ** k + rnd.randrange(radix)))
            sparse.append(('sparse_big3', rnd.randrange(1, radix) * radix ** k + rnd.randrange(radix) * radix ** j + rnd.randrange(1, radix)))
            sparse.append(('sparse_bigm1', radix ** k - 1 - rnd.randrange(radix) * radix ** j))
        if radix & (radix - 1) == 0 and quick:
            sparse = sparse[:1]
        pick_bigs = list(pick_bigs) + sparse
        for fam, v in vals + pick_bigs:
            if scale < 1.0 and rnd.random() > scale:
                continue
            kind = rnd.choice('UI')
            sv = v if kind == 'U' else v * rnd.choice((1, -1))
            cell = ('toradix', radix, fam)
            cmds.append(cmd_toradix(sv, radix, kind, cell=cell if v else None))
            if radix <= 36:
                cmds.append(cmd_tostr(sv, radix, kind, cell=('tostr', radix, fam) if v else None))
                # parse back a spelling of the same value (round trip parse(emit(v)) == v is implied by both oracles)
                s = valid_string(rnd, sv, radix, kind)
                cmds.append(cmd_fromstr(s.encode(), radix, kind, cell=('fromstr', radix, fam, '_' in s, s[0] in '+-')))
                if kind == 'U' and v and rnd.random() < 0.3:
                    cmds.append(cmd_fromstr(('-' + s).encode(), radix, 'U', cell=('fromstr-neg-U', radix)))
            # digit slices
            ds = radix_digits_le(v, radix)
            ks = rnd.choice(('U', 'I+', 'I-', 'I0'))
            pad = [0] * rnd.choice((0, 0, 1, 5))
            cmds.append(cmd_fromradix(ds + pad, radix, ks, cell=('fromradix', radix, fam, ks, len(pad) > 0)))
        # near-miss strings and bad digit slices
        if radix <= 36:
            for s in near_misses(rnd, radix):
                for kind in 'UI':
                    cmds.append(cmd_fromstr(s.encode('utf-8'), radix, kind, cell=('reject', radix <= 10, s[:2], kind)))
            for b in (b'\xff', b'1\xff', b'\xc3', b'\x80' + DIG[1].encode(), b'1\x00'):
                cmds.append(cmd_parsebytes(b, radix, rnd.choice('UI'), cell=('parsebytes-badutf8', radix % 4)))
        cmds.append(cmd_fromradix([], radix, 'U', cell=('fromradix-empty',)))
        cmds.append(cmd_fromradix([0, 0, 0], radix, 'I-', cell=('fromradix-zeros',)))
        if radix < 256:
            cmds.append(cmd_fromradix([1, radix, 1], radix, 'U', cell=('fromradix-baddigit', radix % 8)))
            cmds.append(cmd_fromradix([radix], radix, 'I+', cell=('fromradix-baddigit1', radix % 8)))
            cmds.append(cmd_fromradix([255, 1], radix, 'U', cell=('fromradix-255', radix % 8)))
    # special-value pool through text and digit conversions in every radix
    from ..core import special_values
    pool = special_values()
    for radix in range(2, 257):
        for v in (pool if not quick else pool[radix % 4::4]):
            kind = rnd.choice('UI')
            sv = v if kind == 'U' else -v
            cmds.append(cmd_toradix(sv, radix, kind, cell=('toradix-pool', radix, v.bit_length() // 32)))
            if radix <= 36:
                cmds.append(cmd_tostr(sv, radix, kind, cell=('tostr-pool', radix, v.bit_length() // 32)))
                cmds.append(cmd_fromstr(tostr(sv, radix).encode(), radix, kind, cell=('fromstr-pool', radix, v.bit_length() // 32)))
            cmds.append(cmd_fromradix(radix_digits_le(v, radix), radix, 'U', cell=('fromradix-pool', radix, v.bit_length() // 32)))
    # the whole byte alphabet: every single byte 0..=255 between / before / after valid digits, for every text radix
    # (membership of each byte in the digit alphabet of each radix is decided exhaustively)
    for radix in range(2, 37):
        for byte in range(256):
            if quick and (byte + radix) % 3 and not (0x10 <= byte <= 0x7f):
                continue
            kind = 'UI'[(byte + radix) % 2]
            for tmpl in ((b'1', b'1'), (b'', b'0')) if (not quick or byte % 2 == radix % 2) else ((b'1', b'1'),):
                raw = tmpl[0] + bytes([byte]) + tmpl[1]
                try:
                    raw.decode('utf-8')
                    cmds.append(cmd_fromstr(raw, radix, kind, cell=('alphabet', radix, byte)))
                except UnicodeDecodeError:
                    cmds.append(cmd_parsebytes(raw, radix, kind, cell=('alphabet-nonutf8', radix, byte)))
    # long inputs in power-of-two radices whose top partial word is zero (normalisation of parse results)
    for radix in (2, 4, 8, 16, 32, 64, 128, 256):
        bits = radix.bit_length() - 1
        for nd in (22, 43, 64, 65, 13, 26, 11, 10, 32, 19, 8, 16):
            for top in (0, 1, radix - 1):
                ds = [rnd.randrange(radix) for _ in range(nd - 1)] + [top]
                cmds.append(cmd_fromradix(ds, radix, 'U', cell=('fromradix-pow2', radix, nd * bits % 64, top == 0)))
                if radix <= 36:
                    s = ''.join(DIG[d] for d in reversed(ds))
                    cmds.append(cmd_fromstr(s.encode(), radix, rnd.choice('UI'), cell=('fromstr-pow2', radix, nd * bits % 64, top == 0)))
                allones = [radix - 1] * nd
                cmds.append(cmd_fromradix(allones, radix, 'U', cell=('fromradix-pow2-ones', radix, nd * bits % 64)))
    # radix out of range: must panic (text 2..=36, digits 2..=256) - across operand sizes
    for radix in (0, 1, 37, 100, 257, 512, 1 << 16, (1 << 32) - 1):
        for v in (0, 5, 1 << 70, (1 << 4100) - 1):
            cmds.append(cmd_toradix(v, radix, 'U', cell=('toradix-badradix', radix, v.bit_length() > 64)))
            cmds.append(cmd_toradix(-v, radix, 'I', cell=('toradix-badradix-I', radix, v.bit_length() > 64)))
            if radix > 36 or radix < 2:
                cmds.append(cmd_tostr(v, radix, 'U', cell=('tostr-badradix', radix)))
                cmds.append(cmd_tostr(-v, radix, 'I', cell=('tostr-badradix-I', radix)))
        cmds.append(cmd_fromradix([1, 1], radix, 'U', cell=('fromradix-badradix', radix)))
        cmds.append(cmd_fromradix([], radix, 'I+', cell=('fromradix-badradix-empty', radix)))
        if radix > 36 or radix < 2:
            cmds.append(cmd_fromstr(b'11', radix, 'U', cell=('fromstr-badradix', radix)))
            cmds.append(cmd_fromstr(b'', radix, 'I', cell=('fromstr-badradix-empty', radix)))
    # formatters
    fvals = [0, 1, -1, 9, 255, -255, 1 << 64, -(1 << 64), (1 << 127) - 1, -(1 << 127), (1 << 128), -(1 << 128) - 1, rand_digits(rnd, 5, 0), -rand_digits(rnd, 70, 0)]
    widths = list(range(0, 41)) if not quick else [0, 1, 2, 3, 5, 8, 13, 20, 21, 22, 40]
    for fid in FMT:
        for v in fvals:
            ws = widths if FMT[fid][6] else [0]
            if quick and len(ws) > 4:
                ws = rnd.sample(ws, 4)
            for w in ws:
                cmds.append(cmd_fmt(v, fid, w, 'I', cell=('fmt', fid, 'I', (v > 0) - (v < 0), w > 20, abs(v).bit_length() > 127)))
                if v >= 0:
                    cmds.append(cmd_fmt(v, fid, w, 'U', cell=('fmt', fid, 'U', v > 0, w > 20, v.bit_length() > 127)))
    return cmds


def stages(tier, seed):
    cmds = workload(tier, seed)
    groups = [[c] for c in cmds]
    return [dict(label='rel', variant='rel', groups=groups, floors=FLOORS),
            dict(label='dbg', variant='dbg', groups=groups, floors=FLOORS),
            dict(label='nostd-rel', variant='nostd-rel', groups=groups, floors=FLOORS)]
