"""C17 - serialized form is the portable u32-digit format and round-trips exactly."""
from ..core import rng_for, rand_digits, M64, ndig, Cmd, U, I, W, PANIC, Problem, chk_big, Err, BV
from ..oracles import words

THOROUGH_SEEDS = 3   # the thorough tier repeats its staged workload over this many derived seeds
RULE = ('serialisation through a recording Serializer that accepts only seq / tuple / u32 / i8 and logs the announced length and '
        'every element: values 0, 1..40 u32 digits with the top native digit upper half zero / non-zero (bit lengths = 0, 1, 31, '
        '32, 33 mod 64), both signs; the token list must equal the model (little-endian base-2^32 digits, no trailing zero, '
        'announced length == emitted count, BigInt = tuple(i8 sign, seq)); deserialisation through a token-replay Deserializer: '
        'arbitrary u32 lists (trailing zeros, odd/even length, empty), every sign byte -128..=127 x zero / non-zero magnitude, '
        'size hints none / exact / too small / too large / usize::MAX; sign values in every carrier width (i8..i64, u8..u64, as '
        'self-describing formats hand them over) incl. values congruent to -1/0/1 mod 256; digits handed over as u64 tokens; '
        'Deserialize::deserialize_in_place over longer / equal / shorter existing values; Sign on its own; plus an in-process '
        'round trip.  A cell is (direction, kind, '
        'length, top-half class, sign byte class, hint)')
ASSUMPTIONS = ['the serde data model calls are observed by harness-owned Serializer/Deserializer implementations']


def model_tokens(v, kind):
    ws = words(abs(v), 32)
    seq = ['seq%d' % len(ws)] + ['u%x' % w for w in ws] + ['end']
    if kind == 'U':
        return seq
    return ['tup2', 'i%d' % ((v > 0) - (v < 0))] + seq + ['end']


def cmd_ser(v, kind, cell):
    line = 'ser %s' % (U(v) if kind == 'U' else I(v))
    want = model_tokens(v, kind)

    def check(res):
        out = []
        t = res.val(0)
        if t is PANIC:
            return [Problem({'C17', 'C14'}, 'serialize panicked', '')]
        if not (isinstance(t, tuple) and t[0] == 'tokens'):
            return [Problem('C17', 'serialize: malformed log', repr(t))]
        got_toks = list(t[1])
        if got_toks != want and [x for x in got_toks if x != 'seq?'] == [x for x in want if not x.startswith('seq')]:
            # the digits and their order are right and the sequence was opened without announcing its length: the statement
            # fixes the elements, not the length hint (a wrong announced length is still a violation)
            out.append(Problem({'NOTE'}, 'serialize: sequence opened without an announced length', ''))
        elif got_toks != want:
            out.append(Problem('C17', 'serialize: token stream differs from the documented u32-digit format', 'got=%s want=%s' % (','.join(t[1])[:300], ','.join(want)[:300])))
        if res.val(1) is not True:
            out.append(Problem('C17', 'serialize returned an error', ''))
        out += chk_big('C17', res.get('rt'), v, 'deserialize(serialize(x))', kind)
        rtb = res.get('rtb')
        if 'seq?' not in got_toks and rtb != ('missing',):
            if isinstance(rtb, Err):
                out.append(Problem('C17', 'deserialize(serialize(x)) fails in a non-self-describing (untagged, length-prefixed) format: the value '
                                   'does not ask the reader for what the writer wrote (tuple of 2 = (i8, seq of u32))', ''))
            else:
                out += chk_big('C17', rtb, v, 'deserialize(serialize(x)) through the strict binary reader', kind)
        return out

    return Cmd(line, check, cell=cell, prop='C17')


def cmd_de_u(ws, hint, cell):
    line = 'de U %s %s' % (hint, W(ws))
    v = sum(w << (32 * i) for i, w in enumerate(ws))
    return Cmd(line, lambda res: chk_de(res.val(0), v, 'U'), cell=cell, prop='C17')


def chk_de(got, want, kind):
    if got is PANIC:
        return [Problem({'C17', 'C14'}, 'deserialize panicked', '')]
    if want is None:
        if isinstance(got, BV):
            return [Problem('C17', 'deserialize accepted an invalid sign value', 'got=%r' % (got,))]
        return []
    if isinstance(got, Err):
        return [Problem('C17', 'deserialize rejected a valid input', '')]
    return chk_big('C17', got, want, 'deserialize', kind)


def cmd_de_i(sign, ws, hint, cell):
    line = 'de I %d %s %s' % (sign, hint, W(ws))
    m = sum(w << (32 * i) for i, w in enumerate(ws))
    want = sign * m if sign in (-1, 0, 1) else None
    return Cmd(line, lambda res: chk_de(res.val(0), want, 'I'), cell=cell, prop='C17')


def workload(tier, seed, scale=1.0):
    rnd = rng_for(seed, 'C17', tier)
    quick = tier == 'quick'
    cmds = []
    vals = {0, 1, 0x7fffffff, 0x80000000, 0xffffffff, 1 << 32, (1 << 32) + 1, (1 << 63), M64, 1 << 64}
    for nw in range(1, 41):
        for topbits in (1, 31, 32):
            bl = 32 * (nw - 1) + topbits
            vals.add((1 << (bl - 1)) | rnd.getrandbits(bl - 1))
            vals.add((1 << bl) - 1)
            vals.add(1 << (bl - 1))
    from ..core import special_values
    vals |= set(special_values())
    for v in sorted(vals):
        nw = (v.bit_length() + 31) // 32
        cmds.append(cmd_ser(v, 'U', ('ser', 'U', nw, v.bit_length() % 64)))
        for s in (1, -1):
            cmds.append(cmd_ser(s * v, 'I', ('ser', 'I', s if v else 0, nw, v.bit_length() % 64)))
    hints = ['none', 'exact', '0', '1', '1000000', 'max', '3']
    for nw in range(0, 14):
        for trail in (0, 1, 2, 3):
            for fam in ('rand', 'zeros', 'max', 'topbit'):
                ws = [{'rand': rnd.getrandbits(32), 'zeros': 0, 'max': 0xffffffff, 'topbit': 0x80000000}[fam] for _ in range(nw)] + [0] * trail
                for h in (hints if not quick else rnd.sample(hints, 3)):
                    cmds.append(cmd_de_u(ws, h, ('de', 'U', nw, trail, fam, h)))
                    sb = rnd.choice((-1, 0, 1))
                    cmds.append(cmd_de_i(sb, ws, h, ('de', 'I', sb, nw, trail, fam, h)))
    # Sign on its own
    for sg in (-1, 0, 1):
        def mk(sg=sg):
            def check(res):
                t = res.val(0)
                if t is PANIC:
                    return [Problem({'C17', 'C14'}, 'Sign serialize panicked', '')]
                if t != ('tokens', ['i%d' % sg]) or res.val(1) is not True:
                    return [Problem('C17', 'Sign does not serialize as the i8 -1/0/1', repr(t))]
                if res.get('rtb') != sg:
                    return [Problem('C17', 'Sign does not round-trip through the strict binary reader', repr(res.get('rtb')))]
                return []
            return Cmd('sersign %d' % sg, check, cell=('sersign', sg), prop='C17')
        cmds.append(mk())
    for sb in range(-128, 128):
        def mk(sb=sb):
            def check(res):
                got = res.val(0)
                if got is PANIC:
                    return [Problem({'C17', 'C14'}, 'Sign deserialize panicked', '')]
                if sb in (-1, 0, 1):
                    if got != sb:
                        return [Problem('C17', 'Sign deserialize: wrong sign', 'got=%r want=%d' % (got, sb))]
                elif not isinstance(got, Err):
                    return [Problem('C17', 'Sign deserialize accepted an invalid sign value', 'byte=%d got=%r' % (sb, got))]
                return []
            return Cmd('designs %d' % sb, check, cell=('designs', sb if -2 <= sb <= 2 else 'other'), prop='C17')
        cmds.append(mk())
    # sign values handed over in wider carrier types (self-describing formats deliver i64 / u64): the sign is the VALUE
    carriers = {'i8': (-128, 127), 'i16': (-(1 << 15), (1 << 15) - 1), 'i32': (-(1 << 31), (1 << 31) - 1), 'i64': (-(1 << 63), (1 << 63) - 1),
                'u8': (0, 255), 'u16': (0, 65535), 'u32': (0, (1 << 32) - 1), 'u64': (0, (1 << 64) - 1)}
    signvals = [-1, 0, 1, 2, -2, 3, 127, 128, -128, -129, 129, 254, 255, 256, 257, 258, -254, -255, -256, -257, 511, 512, 513, 32767, 32768, 65279,
                65535, 65536, 65537, -65535, -65536, -65537, (1 << 31) - 1, 1 << 31, (1 << 32) - 1, 1 << 32, (1 << 32) + 1, -(1 << 31), -(1 << 32) - 1,
                -(1 << 32), -(1 << 32) + 1, (1 << 63) - 1, 1 << 63, (1 << 64) - 1, (1 << 64) - 255, (1 << 64) - 256, -(1 << 63), -(1 << 63) + 1,
                -69889, 0x100000000ff, 0xff00000001]
    signvals += [rnd.randrange(-(1 << 63), 1 << 64) for _ in range(12)] + [256 * rnd.randrange(1, 1 << 40) + d for d in (-1, 0, 1) for _ in range(3)]
    for ty, (lo, hi) in carriers.items():
        for sv in sorted(set(signvals)):
            if not (lo <= sv <= hi):
                continue
            cls = sv if -2 <= sv <= 2 else ('cong%d' % (((sv + 1) % 256) - 1) if (sv % 256) in (0, 1, 255) else 'other')
            def mk(ty=ty, sv=sv, cls=cls):
                def check(res):
                    got = res.val(0)
                    if got is PANIC:
                        return [Problem({'C17', 'C14'}, 'Sign deserialize panicked', '')]
                    if sv in (-1, 0, 1):
                        if got != sv:
                            return [Problem('C17', 'Sign deserialize: wrong sign', 'carrier=%s got=%r want=%d' % (ty, got, sv))]
                    elif not isinstance(got, Err):
                        return [Problem('C17', 'Sign deserialize accepted an invalid sign value', 'carrier=%s value=%d got=%r' % (ty, sv, got))]
                    return []
                return Cmd('designs %s:%d' % (ty, sv), check, cell=('designs', ty, cls), prop='C17')
            cmds.append(mk())
            for ws in ([], [5], [0, 7, 0]):
                m = sum(w << (32 * i) for i, w in enumerate(ws))
                want = sv * m if sv in (-1, 0, 1) else None
                cmds.append(Cmd('de I %s:%d %s %s' % (ty, sv, rnd.choice(hints), W(ws)), (lambda res, want=want: chk_de(res.val(0), want, 'I')),
                                cell=('de-sign', ty, cls, len(ws)), prop='C17'))
    # the digits handed over as u64 tokens (all within u32 range): same value
    for nw in (0, 1, 2, 3, 5, 8):
        for trail in (0, 2):
            ws = [rnd.getrandbits(32) for _ in range(nw)] + [0] * trail
            m = sum(w << (32 * i) for i, w in enumerate(ws))
            wide = 'W' + ','.join('%x' % w for w in ws)
            cmds.append(Cmd('de U %s %s' % (rnd.choice(hints), wide), (lambda res, m=m: chk_de(res.val(0), m, 'U')), cell=('de-wide', 'U', nw, trail), prop='C17'))
            cmds.append(Cmd('de I u64:1 %s %s' % (rnd.choice(hints), wide), (lambda res, m=m: chk_de(res.val(0), m, 'I')), cell=('de-wide', 'I', nw, trail), prop='C17'))
    # Deserialize::deserialize_in_place over an existing value (longer, equal, shorter, zero; both kinds)
    places = [0, 1, M64, 1 << 64, (1 << 128) - 1, (1 << 192) + 12345, (1 << 320) - 1, rnd.getrandbits(500) | (1 << 499)]
    incoming = [[], [0], [0, 0, 0], [7], [1, 2], [0xffffffff] * 3, [5, 0, 0, 0, 0], [rnd.getrandbits(32) for _ in range(9)],
                [rnd.getrandbits(32) | 1 for _ in range(20)], [0, 0, 0, 0, 1]]
    for pv in places:
        for ws in incoming:
            m = sum(w << (32 * i) for i, w in enumerate(ws))
            pc = (ndig(pv) > ndig(m)) - (ndig(pv) < ndig(m))
            h = rnd.choice(hints)
            cmds.append(Cmd('dein U %s %s %s' % (U(pv), h, W(ws)), (lambda res, m=m: chk_de(res.val(0), m, 'U')), cell=('dein', 'U', pc, len(ws), m == 0), prop='C17'))
            for psign in (1, -1):
                sb = rnd.choice((-1, 0, 1, 1, -1, 2))
                want = sb * m if sb in (-1, 0, 1) else None
                cmds.append(Cmd('dein I %s %d %s %s' % (I(psign * pv), sb, h, W(ws)), (lambda res, want=want: chk_de(res.val(0), want, 'I')),
                                cell=('dein', 'I', psign if pv else 0, sb, pc, m == 0), prop='C17'))
    # every sign byte x zero / non-zero magnitude
    for sb in range(-128, 128):
        for ws in ([], [0], [0, 0, 0], [1], [0, 0, 1, 0, 0], [rnd.getrandbits(32) | 1, rnd.getrandbits(32)]):
            cmds.append(cmd_de_i(sb, ws, rnd.choice(hints), ('de-sign', sb if -2 <= sb <= 2 else 'other', len(ws), any(ws))))
    return cmds


def stages(tier, seed):
    from ..cross import cross_stages, portable
    cmds = workload(tier, seed)
    groups = [[c] for c in cmds]
    st = [dict(label='rel', variant='rel', groups=groups), dict(label='dbg', variant='dbg', groups=groups),
          dict(label='nostd-rel', variant='nostd-rel', groups=groups)]
    # the serialized form must not depend on the internal digit width: same script on a 32-bit-digit target
    sub = portable(cmds)[::(8 if tier == 'quick' else 2)]
    st += cross_stages('C17', sub, dict(label='x-rel', variant='rel'),
                       [dict(label='miri-i686', variant='miri-i686', tool='miri:i686', shard_min=8, timeout=1500)] +
                       ([dict(label='miri-s390x', variant='miri-s390x', tool='miri:s390x', shard_min=8, timeout=1500)] if tier != 'quick' else []),
                       'serialized form / deserialized value must be independent of the digit width')
    return st
