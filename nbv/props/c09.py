"""C09 - byte and digit-vector import/export is exact, minimal and order-consistent."""
import itertools

from ..core import rng_for, rand_digits, M64, ndig
from ..oracles import cmd_bytes, cmd_frombytes, cmd_fromsbytes, cmd_new, cmd_iter

THOROUGH_SEEDS = 2   # the thorough tier repeats its staged workload over this many derived seeds
RULE = ('export: 0, values whose top native digit has a zero / non-zero upper half, +-2^(8k-1) and +-(2^(8k-1) +- 1) for k=1..24 '
        '(signed length rule and its single exception), negative powers of two, multi-digit values with zero lower digits; import: '
        'empty, all-zero, odd u32 counts, 0x00../0xff.. padding of 0..9 bytes, both endiannesses, ToBytes/FromBytes; iterators: '
        'for iter_u32_digits / iter_u64_digits on values of 0..5 native digits (both top-half cases) EXHAUSTIVE enumeration of all '
        'sequences over the state-changing calls {next, next_back, nth(0), nth(1), nth(2)} up to the tier depth, with len and '
        'size_hint observed after every step and last / count at every reachable state, checked against a deque model. '
        'A cell is (api, family) or (iterator width, value shape, call sequence); every iterator sequence is a distinct cell')
ASSUMPTIONS = ['int.to_bytes / int.from_bytes and a collections.deque are the reference models']


def iter_values():
    vals = [0, 5, 0x7_0000_0005, 1 << 32, (1 << 32) - 1]
    for n in (2, 3, 4, 5):
        base = sum(((0x1111111100000000 * (i + 1)) | (i + 7)) << (64 * i) for i in range(n - 1))
        vals.append(base | (0x9 << (64 * (n - 1))))                   # top digit: zero upper half
        vals.append(base | (0xabcdef01_00000002 << (64 * (n - 1))))   # top digit: non-zero upper half
    vals.append((1 << 64) | 0)            # low digit zero
    vals.append((3 << 96) | (1 << 31))    # zero halves inside
    return vals


def workload(tier, seed, scale=1.0):
    rnd = rng_for(seed, 'C09', tier)
    quick = tier == 'quick'
    cmds = []
    # exports
    vals = {0, 1, 127, 128, 255, 256, M64, 1 << 64, (1 << 64) - 1, (1 << 32), (1 << 32) - 1, (1 << 96) + 5, 1 << 200}
    for k in range(1, 25):
        for d in (-1, 0, 1):
            vals.add((1 << (8 * k - 1)) + d)
            vals.add((1 << (8 * k)) + d)
    for n in range(1, 8):
        vals.add(rand_digits(rnd, n, 0))
        vals.add(rand_digits(rnd, n, 0) >> 33)                # zero upper half in top digit
        vals.add((rand_digits(rnd, n, 0) >> 64 << 64) | 0)    # zero low digit
        # top byte 0x80 with non-zero lower digits (exception applies only to exact powers)
        vals.add((0x80 << (64 * n + 8 * rnd.randrange(8) - 8 if n else 0)) | rnd.getrandbits(64) | 1)
        vals.add((0x80 << (64 * n - 8)) | 1)
        vals.add((0x80 << (64 * n - 8)))
    from ..core import special_values
    vals |= set(special_values())
    for v in sorted(vals):
        if v >= 0:
            cmds.append(cmd_bytes(v, 'U', cell=('bytes', 'U', v.bit_length() % 64, ndig(v))))
        for s in (1, -1):
            cmds.append(cmd_bytes(s * v, 'I', cell=('bytes', 'I', s, v.bit_length() % 8, min(ndig(v), 5), v & (v - 1) == 0)))
    # imports
    for v in sorted(vals):
        for padlen in ((0, 1, 9) if quick else range(0, 10)):
            raw_be = v.to_bytes(max(1, (v.bit_length() + 7) // 8), 'big') if v else b''
            b = b'\x00' * padlen + raw_be
            ks = rnd.choice(('U', 'I+', 'I-', 'I0'))
            cmds.append(cmd_frombytes(b, ks, cell=('frombytes', ks, padlen, len(raw_be) % 8)))
            # signed: sign-extension padding 0x00.. / 0xff..
            for sv in (v, -v):
                n = 1
                while True:
                    try:
                        sb = sv.to_bytes(n, 'big', signed=True)
                        break
                    except OverflowError:
                        n += 1
                ext = (b'\xff' if sv < 0 else b'\x00') * padlen
                cmds.append(cmd_fromsbytes(ext + sb, cell=('fromsbytes', sv < 0, padlen, len(sb) % 8)))
    for b in (b'', b'\x00', b'\x00\x00\x00', b'\xff', b'\xff\xff', b'\x80', b'\x7f', b'\x80\x00', b'\x00\x80', b'\xff\x7f', b'\x7f\xff', bytes(17), b'\xff' * 17, b'\x80' + bytes(16)):
        cmds.append(cmd_fromsbytes(b, cell=('fromsbytes-edge', len(b), b[:1])))
        for ks in ('U', 'I+', 'I-', 'I0'):
            cmds.append(cmd_frombytes(b, ks, cell=('frombytes-edge', ks, len(b), b[:1])))
    # u32 word slices: odd counts, trailing zeros, empty
    for nw in range(0, 12):
        for trail in (0, 1, 2, 3):
            for fam in ('rand', 'zeros', 'max'):
                ws = [{'rand': rnd.getrandbits(32), 'zeros': 0, 'max': 0xffffffff}[fam] for _ in range(nw)] + [0] * trail
                for ks in ('U', 'I+', 'I-', 'I0'):
                    cmds.append(cmd_new(ws, ks, cell=('new', ks, nw, trail, fam)))
    # iterators: exhaustive call sequences
    depth = 5 if quick else 6
    alphabet = ('n', 'b', 't0', 't1', 't2')
    for v in iter_values():
        shape = (ndig(v), (v >> (64 * (ndig(v) - 1))) >> 32 == 0 if v else None)
        for width in (32, 64):
            for d in range(0, depth + 1):
                for seq in itertools.product(alphabet if d > 4 else alphabet + ('k0', 'k1'), repeat=d):
                    if d < depth and d > 2 and scale < 1.0:
                        continue
                    if scale < 1.0 and rnd.random() > scale:
                        continue
                    ops = []
                    for o in seq:
                        ops += [o, 'l', 'h']
                    # terminal observation: alternate last / count, plus fused behaviour (extra next after None)
                    terms = ('L', 'c', 'F', 'R', 'C', 'V', 'S', 'E', 'M', 'm', 'A', 'P', 'p', 'Y', 'Q', 'Z')
                    term = terms[(len(seq) + sum(map(len, seq)) + 3 * sum(map(ord, ''.join(seq)))) % len(terms)]
                    full = ['l', 'h'] + ops + [term]
                    kind = 'U' if (d + width) % 3 else 'I'
                    cmds.append(cmd_iter(width, v if kind == 'U' else -v if d % 2 else v, kind, full, cell=('iter', width, shape, seq, term)))
                    if d == depth:
                        other = terms[(terms.index(term) + 1 + len(seq)) % len(terms)]
                        cmds.append(cmd_iter(width, v, 'U', ['l'] + ops + ['n', 'b', 'l', other], cell=('iter', width, shape, seq, 'fused+' + other)))
    # (next, next_back)-only sequences to greater depth on longer values
    for v in (rand_digits(rnd, 7, 0), rand_digits(rnd, 6, 0) >> 40):
        for width in (32, 64):
            for _ in range(200 if quick else 3000):
                seq = [rnd.choice(('n', 'b', 'n', 'b', 't0', 't1', 't3', 'k0', 'k2', 'l', 'h')) for _ in range(rnd.randrange(1, 24))]
                cmds.append(cmd_iter(width, v, 'U', seq + [rnd.choice(('L', 'c', 'F', 'R', 'C', 'V', 'S', 'E', 'M', 'm', 'A', 'P', 'p', 'Y', 'Q', 'Z'))], cell=('iter-rand', width, len(seq))))
    return cmds


def stages(tier, seed):
    from ..cross import cross_stages, portable
    cmds = workload(tier, seed)
    groups = [[c] for c in cmds]
    st = [dict(label='rel', variant='rel', groups=groups), dict(label='dbg', variant='dbg', groups=groups)]
    # the other cfg_digit! arm (32-bit digits: plain u32 iterator, chunked u64 iterator) and a big-endian target
    rnd = rng_for(seed, 'C09x', tier)
    pool = portable(cmds)
    # stratified: every short iterator call sequence (depth <= 2, each value, both widths, last and count) ...
    short = [c for c in pool if isinstance(c.cell, tuple) and c.cell[0] == 'iter' and len(c.cell[3]) <= (2 if tier == 'quick' else 3)]
    rest = [c for c in pool if c not in set(short)] if len(short) < 5000 else pool
    sub = short + rnd.sample(rest, min(len(rest), 350 if tier == 'quick' else 3000))
    st += cross_stages('C09', sub, dict(label='x-rel', variant='rel'),
                       [dict(label='miri-i686', variant='miri-i686', tool='miri:i686', shard_min=8, timeout=1500)] +
                       ([dict(label='miri-s390x', variant='miri-s390x', tool='miri:s390x', shard_min=8, timeout=1500)] if tier != 'quick' else []),
                       'exports / iterators must not depend on the digit width')
    return st
