"""C13 - GCD, LCM, Bezout coefficients and multiple-of helpers are exact."""
from ..core import rng_for, rand_digits, M64, ndig
from ..oracles import cmd_gcd, cmd_mult, cmd_par

THOROUGH_SEEDS = 30   # the thorough tier repeats its staged workload over this many derived seeds
RULE = ('pairs: zeros, equal, divisor/multiple (incl. lengths differing by several digits with an even shorter operand), '
        '(u*2^i, v*2^j) with i,j in {0,1,63,64,65,128,200} (trailing zeros spanning digits, unequal), coprime 1..30-digit values, '
        'Fibonacci neighbours, all sign combinations; gcd lcm gcd_lcm extended_gcd extended_gcd_lcm is_multiple_of divides '
        'next/prev_multiple_of is_even is_odd inc dec; Bezout checked as a*x+b*y = g = gcd >= 0 (coefficients are not unique); '
        'the Stein loop runs under a logical step budget. A cell is (api, family, signs, length classes)')
ASSUMPTIONS = ['math.gcd is the reference; next/prev_multiple_of follow the num-integer definitions (for a negative argument: mirrored); (x, 0) is not exercised for next/prev_multiple_of because the property does not state it']
FLOORS = ['GcdLoop']


def fib(n):
    a, b = 0, 1
    for _ in range(n):
        a, b = b, a + b
    return a


def workload(tier, seed, scale=1.0):
    rnd = rng_for(seed, 'C13', tier)
    quick = tier == 'quick'
    cmds = []
    pairs = []
    for a in (0, 1, 2, 6, M64, 1 << 64, rand_digits(rnd, 3, 0)):
        for b in (0, 1, 2, 4, 9, 1 << 64, a, 3 * a, a * a if a < (1 << 100) else a):
            pairs.append(('small', a, b))
    shifts = (0, 1, 63, 64, 65, 128, 200)
    for i in shifts:
        for j in shifts:
            for n in ((1, 3) if quick else (1, 2, 3, 6)):
                u = rand_digits(rnd, n, 0) | 1
                v = rand_digits(rnd, rnd.randrange(1, n + 1), 0) | 1
                g = rnd.choice((1, 3, rand_digits(rnd, 1, 0) | 1))
                pairs.append(('tz', (u * g) << i, (v * g) << j))
    for n in range(1, 31 if not quick else 12):
        a, b = rand_digits(rnd, n, 0), rand_digits(rnd, rnd.randrange(1, n + 1), 0)
        pairs.append(('rand', a, b))
        pairs.append(('multiple', a * b, b))
        pairs.append(('multiple_even', a * (b * 2) << 3, (b * 2) << 3))
        pairs.append(('multiple_far', (a << 200) * (b | 2), (b | 2) & ~1 or 2))
        pairs.append(('divisor', b, a * b))
        g = rand_digits(rnd, max(1, n // 2), 0)
        pairs.append(('common', a * g, b * g))
    for k in (10, 90, 91, 92, 93, 94, 185, 186, 187, 300, 1000):
        pairs.append(('fib', fib(k + 1), fib(k)))
    # values at primitive-type boundaries (word-sized fast paths): +-2^31, +-2^63, +-2^127 and neighbours, paired with 0, 1, themselves
    bnd = []
    for k in (7, 15, 31, 32, 63, 64, 127, 128):
        bnd += [(1 << k) - 1, 1 << k, (1 << k) + 1]
    for x in bnd:
        for y in (0, 1, x, x - 1, 2, 1 << 63, (1 << 63) - 1, 6):
            pairs.append(('prim_boundary', x, y))
    from ..core import special_values
    pool = special_values()
    for x in pool:
        for y in (pool[::5] if quick else pool[::2]):
            pairs.append(('pool', x, y))
    pairs += [('pow10', 10 ** 40, 1000), ('pow2big', 3 << 200, 12), ('zero_a', 0, 3), ('zero_a_big', 0, rand_digits(rnd, 4, 0)), ('zero_b', rand_digits(rnd, 4, 0), 0)]
    for fam, a, b in pairs:
        if scale < 1.0 and rnd.random() > scale:
            continue
        la, lb = min(ndig(a), 8), min(ndig(b), 8)
        cmds.append(cmd_gcd(a, b, 'U', cell=('gcd', 'U', fam, la, lb)))
        for sa in (1, -1):
            for sb in (1, -1):
                cmds.append(cmd_gcd(sa * a, sb * b, 'I', cell=('gcd', 'I', fam, sa, sb, la, lb)))
        if b != 0:
            cmds.append(cmd_mult(a, b, 'U', cell=('mult', 'U', fam, la, lb)))
            cmds.append(cmd_mult(a + 1, b, 'U', cell=('mult+1', 'U', fam, la, lb)))
            for sa in (1, -1):
                for sb in (1, -1):
                    cmds.append(cmd_mult(sa * a, sb * b, 'I', cell=('mult', 'I', fam, sa, sb, la, lb)))
                    cmds.append(cmd_mult(sa * a + 1, sb * b, 'I', cell=('mult+1', 'I', fam, sa, sb, la, lb)))
    for v in (0, 1, 2, 3, M64, 1 << 64, (1 << 64) + 1, (1 << 128) - 1, rand_digits(rnd, 5, 0), rand_digits(rnd, 5, 0) << 64):
        cmds.append(cmd_par(v, 'U', cell=('par', 'U', v & 1, ndig(v))))
        for s in (1, -1):
            cmds.append(cmd_par(s * v, 'I', cell=('par', 'I', s, v & 1, ndig(v))))
    return cmds


def stages(tier, seed):
    cmds = workload(tier, seed)
    groups = [[c] for c in cmds]
    return [dict(label='rel', variant='rel', groups=groups, floors=FLOORS), dict(label='dbg', variant='dbg', groups=groups, floors=FLOORS)]
