"""C20 - multiplication cost grows sub-quadratically with operand size."""
import random

from ..core import Cmd, U, Problem, M64, PANIC
from .. import runner
from .c02 import digest

THOROUGH_SEEDS = 1   # the thorough tier repeats its staged workload over this many derived seeds
RULE = ('the hooked work counter (sum of row lengths passed to the multiply-accumulate row routine = elementary digit '
        'multiplications) is read before/after one &a * &b on fixed dense operands (no zero digits; seed-independent), so the '
        'count is a deterministic function of the code: balanced n in {256,...,16384}: W(2n)/W(n) <= 3.1 for every doubling, '
        'W(4096) < 4096^2/4, the same for squares computed as &a * &a on one object; unbalanced n x (2n-1), n x 2n, n x 64n for n in {64,256,300,1024}: W <= n*m; every product is also '
        'value-checked by digest so a fast-but-wrong dispatch cannot pass. No timing is used. A cell is one (n, m) shape')
ASSUMPTIONS = ['the work counter hook adds one statement to mac_digit and does not alter dispatch', 'thresholds: ratio 3.1 (Karatsuba = 3.0, schoolbook = 4.0)']

_W = {}


def dense(n, salt):
    r = random.Random(1000003 * n + salt)
    v = 0
    for i in range(n):
        v |= (r.getrandbits(64) | 1 | (1 << 63)) << (64 * i)
    return v


def sparse(n, salt, period=3):
    """every `period`-th digit non-zero (Kronecker-packing style); top digit non-zero"""
    r = random.Random(7000003 * n + salt)
    v = 0
    for i in range(n):
        if i % period == 0 or i == n - 1:
            v |= (r.getrandbits(64) | 1) << (64 * i)
    return v


def ordered(n, salt, rising):
    """dense digits in strictly rising / falling order from the least significant digit"""
    r = random.Random(9000011 * n + salt)
    ds = sorted((r.getrandbits(62) | (1 << 62)) + i for i in range(n))
    if not rising:
        ds.reverse()
    return sum(d << (64 * i) for i, d in enumerate(ds))


def operand(n, salt, pat):
    if pat in 'rf':
        return ordered(n, salt, pat == 'r')
    return dense(n, salt) if pat == 'd' else sparse(n, salt)



def cmd_work(n, m, tag, pats='dd', op='work'):
    a, b = operand(n, 1, pats[0]), operand(m, 2, pats[1])
    wd = digest(a * b)
    line = '%s %s %s' % (op, U(a), U(b))

    def check(res):
        out = []
        w = res.val(0)
        d = res.pos[1]
        if d == 'P':
            return [Problem({'C20', 'C02', 'C14'}, 'work: multiplication panicked', '')]
        if d != wd:
            out.append(Problem({'C02'}, 'work: wrong product', 'n=%d m=%d' % (n, m)))
        _W[(tag, n, m)] = w
        return out

    return Cmd(line, check, cell=(tag, n, m), prop='C20')


def cmd_worksq(n, tag):
    a = dense(n, 1)
    wd = digest(a * a)
    line = 'worksq %s' % U(a)

    def check(res):
        out = []
        w = res.val(0)
        d = res.pos[1]
        if d == 'P':
            return [Problem({'C20', 'C02', 'C14'}, 'worksq: squaring panicked', '')]
        if d != wd:
            out.append(Problem({'C02'}, 'worksq: wrong square', 'n=%d' % n))
        _W[(tag + '-sq', n, n)] = w
        return out

    return Cmd(line, check, cell=(tag + '-sq', n), prop='C20')


FORMS = ('vv', 'vr', 'rv', 'chk', 'int', 'intas', 'prod', 'prodv')
SQFORMS = ('pow2', 'pow2v', 'powb2', 'ipow2')


def cmd_workf(form, n, tag):
    """the product (or, for the pow forms, the square) requested through another public route"""
    a, b = dense(n, 1), dense(n, 2)
    wd = digest(a * a if form in SQFORMS else a * b)
    line = 'workf %s %s %s' % (form, U(a), U(b))

    def check(res):
        out = []
        w = res.val(0)
        d = res.pos[1]
        if d == 'P':
            return [Problem({'C20', 'C02', 'C14'}, 'workf %s: multiplication panicked' % form, '')]
        if d != wd:
            out.append(Problem({'C02'}, 'workf %s: wrong product' % form, 'n=%d' % n))
        _W[(tag + '-' + form, n, n)] = w
        return out

    return Cmd(line, check, cell=(tag + '-' + form, n), prop='C20')


BAL = [256, 512, 1024, 2048, 4096, 8192, 16384]
UNB = [(n, m) for n in (64, 256, 300, 1024) for m in (2 * n - 1, 2 * n, 64 * n)]


def analyse(tag, sizes, unb, ratio=True):
    sr = runner.StageResult()

    def viol(what, detail, cmd):
        pr = Problem('C20', what, detail)
        pr.cmd = cmd
        pr.variant = tag
        sr.problems.append(pr)

    ws = {n: _W.get((tag, n, n)) for n in sizes}
    if any(v is None for v in ws.values()):
        sr.inconclusive.append('work counter missing for some sizes in %s: %s' % (tag, [n for n, v in ws.items() if v is None]))
        return sr
    for n in sizes:
        sr.evaluations += 1
        if ws[n] == 0:
            sr.inconclusive.append('work counter reads 0 for n=%d (hooks not active?)' % n)
            return sr
    for n in (sizes[:-1] if ratio else []):
        ratio = ws[2 * n] / ws[n]
        sr.cells.add(('ratio', n))
        sr.samples.append({'n': n, 'W(n)': ws[n], 'W(2n)/W(n)': round(ratio, 4)})
        if ratio > 3.1:
            viol('doubling the length from %d to %d digits multiplied the work by %.3f (> 3.1; schoolbook = 4)' % (n, 2 * n, ratio),
                 'W(%d)=%d W(%d)=%d' % (n, ws[n], 2 * n, ws[2 * n]), 'work balanced %d' % (2 * n))
    if 4096 in ws:
        frac = ws[4096] / (4096 * 4096)
        sr.cells.add(('quarter', 4096))
        sr.samples.append({'W(4096)/4096^2': round(frac, 4)})
        if not frac < 0.25:
            viol('4096 x 4096 digits costs %.3f of the schoolbook count (must be < 0.25)' % frac, 'W=%d' % ws[4096], 'work balanced 4096')
    for (n, m) in unb:
        w = _W.get((tag, n, m))
        sr.evaluations += 1
        if w is None:
            sr.inconclusive.append('work counter missing for %dx%d' % (n, m))
            continue
        sr.cells.add(('unbalanced', n, m))
        if w > n * m:
            viol('unbalanced %d x %d product costs %.3f of the schoolbook count (> 1)' % (n, m, w / (n * m)), 'W=%d' % w, 'work unbalanced %d %d' % (n, m))
    return sr


def analyse_near(tag, sizes, num, den):
    """series n x (n*num/den): every doubling of both lengths multiplies the work by at most 3.1, and the 4096-digit member
    costs less than a quarter of its schoolbook count n*m"""
    sr = runner.StageResult()
    ws = {n: _W.get((tag, n, n * num // den)) for n in sizes}
    if any(v is None or v == 0 for v in ws.values()):
        sr.inconclusive.append('work counter missing for some sizes in %s' % tag)
        return sr
    for n in sizes[:-1]:
        sr.evaluations += 1
        ratio = ws[2 * n] / ws[n]
        sr.cells.add((tag, 'ratio', n))
        sr.samples.append({'shape': '%d x %d' % (n, n * num // den), 'W': ws[n], 'W(2n)/W(n)': round(ratio, 4)})
        if ratio > 3.1:
            pr = Problem('C20', 'doubling both lengths from %d x %d multiplied the work by %.3f (> 3.1; schoolbook = 4)' % (n, n * num // den, ratio),
                         'W=%d -> %d' % (ws[n], ws[2 * n]))
            pr.cmd = 'work %s %d' % (tag, 2 * n)
            pr.variant = tag
            sr.problems.append(pr)
    if 4096 in ws:
        m = 4096 * num // den
        frac = ws[4096] / (4096 * m)
        sr.cells.add((tag, 'quarter'))
        sr.samples.append({'W(4096 x %d)/(n*m)' % m: round(frac, 4)})
        if not frac < 0.25:
            pr = Problem('C20', '4096 x %d digits costs %.3f of the schoolbook count (must be < 0.25 for about-equal lengths)' % (m, frac), 'W=%d' % ws[4096])
            pr.cmd = 'work %s 4096' % tag
            pr.variant = tag
            sr.problems.append(pr)
    return sr


def stages(tier, seed):
    _W.clear()
    rel = [cmd_work(n, n, 'rel') for n in BAL] + [cmd_work(n, m, 'rel') for n, m in UNB] + [cmd_worksq(n, 'rel') for n in BAL]
    # other operator form / buffer state / digit patterns: `x *= &b` into a receiver with spare capacity; dense x sparse
    # and sparse x dense (every third digit non-zero)
    rel += [cmd_work(n, n, 'rel-as', 'dd', 'workas') for n in BAL]
    rel += [cmd_work(n, n, 'rel-ds', 'ds') for n in BAL] + [cmd_work(n, n, 'rel-sd', 'sd') for n in BAL] + [cmd_work(n, n, 'rel-ss', 'ss') for n in BAL]
    dsz = [256, 512, 1024, 2048, 4096]
    dun = [(n, m) for n, m in UNB if n * m <= 300 * 64 * 300]
    dbg = [cmd_work(n, n, 'dbg') for n in dsz] + [cmd_work(n, m, 'dbg') for n, m in dun]
    # about-equal (not exactly equal) lengths: n x 5n/4 and n x 29n/20; the doubling clause applies along each series and
    # the absolute clause is scaled to the n*m count of that shape
    for num, den, tg in ((5, 4, 'near125'), (29, 20, 'near145'), (21, 20, 'near105')):
        rel += [cmd_work(n, n * num // den, 'rel-' + tg) for n in BAL[:6]]
    # operands whose halves are ordered oppositely at every recursion level (x rising, y falling ...), which steers Karatsuba
    # into each sign arm of its middle term.  Sizes start at 256 like the main series: the doubling clause is only applied
    # well beyond the crossover points, so that a retuned threshold (a legitimate change) cannot trip it
    ordsz = [256, 512, 1024, 2048]
    for pa in ('rf', 'fr', 'rr', 'ff'):
        rel += [cmd_work(n, n, 'rel-ord' + pa, pa) for n in ordsz]
    fsz = [1024, 2048, 4096]
    rel += [cmd_workf(f, n, 'rel') for f in FORMS + SQFORMS for n in fsz]
    # the configurations without std (the dispatch must not depend on the feature set)
    nostd = [cmd_work(n, n, 'nostd') for n in dsz] + [cmd_work(n, m, 'nostd') for n, m in dun] + [cmd_worksq(n, 'nostd') for n in dsz]
    extra = [dict(label='analyse-rel-form-' + f, custom=(lambda f=f: analyse('rel-' + f, fsz, []))) for f in FORMS + SQFORMS]
    for num, den, tg in ((5, 4, 'near125'), (29, 20, 'near145'), (21, 20, 'near105')):
        extra.append(dict(label='analyse-rel-form-' + tg, custom=(lambda num=num, den=den, tg=tg: analyse_near('rel-' + tg, BAL[:6], num, den))))
    for pa in ('rf', 'fr', 'rr', 'ff'):
        extra.append(dict(label='analyse-rel-form-ord' + pa, custom=(lambda pa=pa: analyse('rel-ord' + pa, [256, 512, 1024, 2048], []))))
    extra += [dict(label='nostd-rel', variant='nostd-rel', groups=[nostd]),
              dict(label='analyse-nostd', custom=lambda: analyse('nostd', dsz, dun)),
              dict(label='analyse-nostd-squares', custom=lambda: analyse('nostd-sq', dsz, []))]
    return extra_first(extra, [dict(label='rel', variant='rel', groups=[rel], floors=['MulToom3', 'MulKaratsuba', 'MulHalfKaratsuba']),
            dict(label='analyse-rel', custom=lambda: analyse('rel', BAL, UNB)),
            dict(label='analyse-rel-squares', custom=lambda: analyse('rel-sq', BAL, [])),
            dict(label='analyse-rel-mul_assign', custom=lambda: analyse('rel-as', BAL, [])),
            # sparse operands are outside the property's quantifier for the doubling clause (on the unchanged tree the
            # ratio reaches 3.3-3.7 because zero multiplier digits are skipped more profitably at small sizes), so only
            # the absolute clause "4096 x 4096 costs less than a quarter of schoolbook" is applied to them
            dict(label='analyse-rel-dense_x_sparse', custom=lambda: analyse('rel-ds', BAL, [], ratio=False)),
            dict(label='analyse-rel-sparse_x_dense', custom=lambda: analyse('rel-sd', BAL, [], ratio=False)),
            dict(label='analyse-rel-sparse_x_sparse', custom=lambda: analyse('rel-ss', BAL, [], ratio=False)),
            dict(label='dbg', variant='dbg', groups=[dbg]),
            dict(label='analyse-dbg', custom=lambda: analyse('dbg', dsz, dun))])


def extra_first(extra, base):
    """base stages first (the rel run fills the counters the form analyses read), then the extra ones"""
    return base[:1] + [e for e in extra if e['label'].startswith('analyse-rel-form-')] + base[1:] + [e for e in extra if not e['label'].startswith('analyse-rel-form-')]
