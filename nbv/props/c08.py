"""C08 - primitive integer and float conversions are exact or correctly rounded."""
from ..core import rng_for, rand_digits, M64, ndig
from ..arith import STYPES
from ..oracles import cmd_toprim, cmd_tof, cmd_fromprim, cmd_fromf, cmd_frombool, PRIMS

THOROUGH_SEEDS = 4   # the thorough tier repeats its staged workload over this many derived seeds
RULE = ('integers: for each of the 12 primitive types values within +-2 of MIN, MAX, 0 and of 2^64 / 2^128, through to_*, '
        'TryFrom<&Big>, TryFrom<Big> (the error must carry the original back), From / from_* / ToBigInt / ToBigUint / TryFrom of '
        'every primitive incl. MIN; floats: for p in {24,53} values top_p*2^k + tail with tail in {0, half-eps, half, half+eps} '
        'where eps = 2^j for EVERY j below the half bit (deciding bit arbitrarily far down, in any part of any lower digit), '
        'top_p even/odd/all-ones, magnitudes around 2^24, 2^53, 2^64, 2^128 (f32 overflow) and 2^1024 (f64 overflow) +- ulp/half '
        'ulp, 1..20 digits, both signs; from_f32/f64 over all exponents, subnormals, +-0, +-inf, NaN, integers +- 0.5. '
        'A cell is (api, type, boundary relation) or (float width, length, tail kind, deciding-bit position class)')
ASSUMPTIONS = ['float expectations are computed by exact integer round-half-even on CPython ints and compared as bit patterns']
FLOORS = ['HighBitsSticky', 'FloatInfinity']


def workload(tier, seed, scale=1.0):
    rnd = rng_for(seed, 'C08', tier)
    quick = tier == 'quick'
    cmds = []
    # integer boundaries
    pts = {0}
    for ty, (lo, hi) in STYPES.items():
        for c in (lo, hi):
            for d in range(-2, 3):
                pts.add(c + d)
    for c in (1 << 64, 1 << 128, -(1 << 64), -(1 << 128), 1 << 63, 1 << 127, 1 << 32, 1 << 16, 1 << 8):
        for d in range(-2, 3):
            pts.add(c + d)
    pts |= {rand_digits(rnd, n, 0) * s for n in (1, 2, 3, 5) for s in (1, -1)}
    from ..core import special_values
    for v in special_values():
        pts.add(v)
        pts.add(-v)
        cmds.append(cmd_tof(v, 'U', cell=('tof-pool', v.bit_length() // 16)))
        cmds.append(cmd_tof(-v, 'I', cell=('tof-pool-neg', v.bit_length() // 16)))
    for v in sorted(pts):
        cmds.append(cmd_toprim(v, 'I', cell=('toprim', 'I', v.bit_length(), v < 0, v & 3)))
        if v >= 0:
            cmds.append(cmd_toprim(v, 'U', cell=('toprim', 'U', v.bit_length(), v & 3)))
    for ty, (lo, hi) in STYPES.items():
        for s in sorted({lo, lo + 1, lo + 2, -2, -1, 0, 1, 2, hi - 2, hi - 1, hi, hi // 2, lo // 2, rnd.randrange(lo, hi + 1)} | ({1 << 32, 1 << 63, (1 << 64) - 1, 1 << 64, 1 << 96} if hi > (1 << 96) else set())):
            if lo <= s <= hi:
                cmds.append(cmd_fromprim(ty, s, cell=('fromprim', ty, s == lo, s == hi, s.bit_length() // 16)))
    # floats: big -> float
    def tails(p, total_bits):
        """values of `total_bits` bits: top p bits | tail"""
        shift = total_bits - p
        if shift <= 0:
            return
        half = 1 << (shift - 1)
        for topkind in ('even', 'odd', 'ones'):
            top = {'even': (1 << (p - 1)) | (rnd.getrandbits(p - 2) << 1), 'odd': (1 << (p - 1)) | rnd.getrandbits(p - 1) | 1, 'ones': (1 << p) - 1}[topkind]
            base = top << shift
            yield ('exact', topkind, None), base
            yield ('half', topkind, None), base + half
            js = range(0, shift - 1) if (not quick or shift < 140) else sorted(set(list(range(0, 70)) + [rnd.randrange(shift - 1) for _ in range(40)] + list(range(shift - 70, shift - 1))))
            for j in js:
                if j < 0:
                    continue
                yield ('half+eps', topkind, j), base + half + (1 << j)
                if quick and j % 3:
                    continue
                yield ('half-eps', topkind, j), base + half - (1 << j)
    for p in (24, 53):
        lens = (1, 2, 3, 4, 5, 8, 20) if quick else range(1, 21)
        for n in lens:
            for tb in sorted({64 * n, 64 * n - 1, 64 * n - 31, 64 * (n - 1) + 1, 64 * (n - 1) + 33}):
                if tb <= p:
                    continue
                if p == 24 and tb > 140 and quick and n not in (3, 20):
                    continue
                for (kind, topkind, j), v in tails(p, tb):
                    if scale < 1.0 and rnd.random() > scale:
                        continue
                    s = rnd.choice((1, -1))
                    jc = None if j is None else ('digit%d' % min(j // 64, 3), 'hi' if j % 64 >= 32 else 'lo')
                    cmds.append(cmd_tof(s * v, 'I' if s < 0 or rnd.random() < 0.5 else 'U', cell=('tof', p, min(n, 6), kind, topkind, jc)))
    # magnitudes around the interesting powers, +- ulp / half ulp
    for k in (24, 25, 53, 54, 63, 64, 65, 127, 128, 129, 1023, 1024, 1025, 2000):
        for p in (24, 53):
            if k < p:
                continue
            ulp = 1 << (k - p) if k >= p else 1
            for d in (0, -1, 1, -ulp, ulp, -ulp // 2, ulp // 2, -ulp // 2 - 1, ulp // 2 + 1, -ulp // 2 + 1, ulp // 2 - 1):
                for base in ((1 << k), (1 << k) - ulp, (1 << k) - ulp // 2 if ulp > 1 else (1 << k)):
                    v = base + d
                    if v > 0:
                        cmds.append(cmd_tof(v, 'U', cell=('tof-edge', k, p, (d > 0) - (d < 0), abs(d) > 1)))
                        cmds.append(cmd_tof(-v, 'I', cell=('tof-edge-neg', k, p, (d > 0) - (d < 0), abs(d) > 1)))
    for v in (0, 1, 2, 3, (1 << 24) - 1, 1 << 24, (1 << 24) + 1, (1 << 53) + 1, M64, rand_digits(rnd, 18, 0)):
        cmds.append(cmd_tof(v, 'U', cell=('tof-small', v.bit_length())))
        cmds.append(cmd_tof(-v, 'I', cell=('tof-small-neg', v.bit_length())))
    # float -> big
    for width, ebits, mbits in ((32, 8, 23), (64, 11, 52)):
        exps = range(0, 1 << ebits) if (width == 32 or not quick) else sorted(set(list(range(0, 4)) + list(range(1000, 1100)) + [rnd.randrange(1 << ebits) for _ in range(120)] + [(1 << ebits) - 1, (1 << ebits) - 2, 1023 + 52, 1023 + 53, 1023 + 63, 1023 + 64, 1023 + 127, 1023 + 128]))
        for e in exps:
            for m in (0, 1, (1 << mbits) - 1, 1 << (mbits - 1), rnd.getrandbits(mbits)):
                for sgn in (0, 1):
                    if quick and width == 32 and (e % 3) and m not in (0, 1):
                        continue
                    bits = (sgn << (width - 1)) | (e << mbits) | m
                    cmds.append(cmd_fromf(width, bits, cell=('fromf', width, sgn, 'sub' if e == 0 else 'special' if e == (1 << ebits) - 1 else min(e // 64, 20), m == 0)))
        # integers +- 0.5 and small fractions
        import struct
        for x in (0.5, -0.5, 1.5, -1.5, 0.999, -0.999, 2.5, 1e10 + 0.5, -1e10 - 0.5, 4503599627370496.5, 0.0, -0.0, 1.0, -1.0, 255.99, 16777216.0, 16777217.0):
            if width == 64:
                bits = struct.unpack('<Q', struct.pack('<d', x))[0]
            else:
                bits = struct.unpack('<I', struct.pack('<f', x))[0]
            cmds.append(cmd_fromf(width, bits, cell=('fromf-frac', width, x < 0, abs(x) < 1)))
    cmds.append(cmd_frombool(0))
    cmds.append(cmd_frombool(1))
    return cmds


def stages(tier, seed):
    cmds = workload(tier, seed)
    groups = [[c] for c in cmds]
    return [dict(label='rel', variant='rel', groups=groups, floors=FLOORS), dict(label='dbg', variant='dbg', groups=groups, floors=FLOORS)]
