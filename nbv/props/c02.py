"""C02 - multiplication is exact in every algorithm regime and at every size boundary."""
from ..core import rng_for, rand_digits, M64, ndig, Cmd, U, I, PANIC, Problem, chk_big, parse_tok
from ..arith import cmd_bb, cmd_sf

THOROUGH_SEEDS = 10   # the thorough tier repeats its staged workload over this many derived seeds
RULE = ('shorter-operand lengths on both sides of every regime threshold (1,2,32/33,256/257 ...) x longer = '
        '{s, s+1, 2s-1, 2s, 2s+1, 3s-1, 3s, 3s+1, 64s} x digit patterns (all-ones, random, sparse, low zero digits, '
        'digit-aligned 0/MAX blocks, halves ordered to force each Karatsuba middle-term sign, squares, Toom-3 with '
        'empty top part) x signs; products up to 70 digits go through every form (bb), larger ones through one '
        '&a*&b compared by full value or digest; a cell is (set of regime probes the command hit, pattern, '
        'len class) and is non-trivial if a sub-quadratic regime or a fast path was reached')
ASSUMPTIONS = ['CPython int multiplication is the reference model']
FLOORS = ['MulLong', 'MulHalfKaratsuba', 'MulKaratsuba', 'MulToom3', 'KaraPlus', 'KaraMinus', 'KaraNoSign',
          'MulStripZeros', 'ScalarMulPow2', 'Toom3X2Empty']
REGIME = ('MulLong', 'MulHalfKaratsuba', 'MulKaratsuba', 'MulToom3', 'KaraPlus', 'KaraMinus', 'KaraNoSign',
          'MulStripZeros', 'ScalarMulPow2', 'Toom3X2Empty')


def digest(v):
    h = 0xcbf29ce484222325
    n = 0
    while v:
        w = v & M64
        v >>= 64
        n += 1
        h ^= w
        h = (h * 0x100000001b3) & M64
        h = ((h << 29) | (h >> 35)) & M64
    return 'D%d.%016x' % (n, h)


def lenclass(n):
    for k in (1, 2, 4, 8, 16, 32, 33, 64, 65, 128, 256, 257, 512, 1024, 2048, 4096, 8192):
        if n <= k:
            return k
    return 99999


def mul_cell(pattern, la, lb):
    def cell_of(res):
        return True
    return (pattern, lenclass(la), lenclass(lb))


def nontrivial(res):
    return any(p in res.probes for p in ('MulHalfKaratsuba', 'MulKaratsuba', 'MulToom3', 'ScalarMulPow2', 'MulStripZeros'))


def cmd_mulh(a, b, pattern):
    want = a * b
    line = 'mulh %s %s' % (U(a), U(b))
    wd = digest(want)

    def check(res):
        got = res.pos[0]
        if got == 'P':
            return [Problem({'C02', 'C14'}, 'mulh: multiplication panicked', '')]
        if got != wd:
            return [Problem('C02', 'mulh: wrong product (digest differs)', 'got=%s want=%s' % (got, wd))]
        return []

    return Cmd(line, check, cell=('mulh',) + mul_cell(pattern, ndig(a), ndig(b)), nontrivial=nontrivial, prop='C02')


def cmd_mulv(a, b, pattern, kind='U'):
    """one &a * &b with the full value reported (through the generic bb command is too costly in
    debug builds for big operands because it evaluates ten forms)"""
    return cmd_bb('C02', 'mul', a, b, kind, cell=('bb',) + mul_cell(pattern, ndig(a), ndig(b)), nontrivial=nontrivial)


def blocks(rnd, n, maxrun=None):
    """digit-aligned runs of 0 / MAX / random digits; top digit non-zero"""
    d = []
    while len(d) < n:
        run = rnd.randrange(1, (maxrun or max(2, n // 2)) + 1)
        kind = rnd.choice(('z', 'm', 'm', 'r', 'one'))
        for _ in range(run):
            d.append({'z': 0, 'm': M64, 'r': rnd.getrandbits(64), 'one': 1}[kind])
    d = d[:n]
    if d and d[-1] == 0:
        d[-1] = M64
    v = 0
    for i, x in enumerate(d):
        v |= x << (64 * i)
    return v


def with_halves(rnd, n, split, rel):
    """n-digit value x = x1*B^split + x0 with x1 <,>,== x0 (compared as numbers after stripping)"""
    hi_len = n - split
    lo_len = split
    x1 = rand_digits(rnd, hi_len, 0)
    if rel == 'eq':
        if hi_len > lo_len:
            # x0 cannot equal x1 when x1 is longer unless x1 has fewer significant digits - not allowed (top digit)
            x1 = rand_digits(rnd, hi_len, 0)
            x0 = x1 & ((1 << (64 * lo_len)) - 1)
            return None
        x0 = x1
    elif rel == 'lt':   # x1 < x0
        x0 = rand_digits(rnd, lo_len, 0) | (1 << (64 * lo_len - 1)) if lo_len else 0
        if lo_len == hi_len:
            x1 = x0 - 1 - rnd.getrandbits(32) if x0 > (1 << 40) else x1
            if x1 <= 0 or ndig(x1) != hi_len:
                return None
        elif hi_len > lo_len:
            return None
    else:               # x1 > x0
        x0 = rand_digits(rnd, max(0, lo_len - rnd.choice((0, 0, 1, 2))), 0) if lo_len else 0
        if ndig(x0) == hi_len and x0 >= x1:
            x0 = x1 >> 1
    if x1 == 0:
        return None
    return (x1 << (64 * split)) | x0


def pattern_values(rnd, n, which):
    if which == 'ones':
        return (1 << (64 * n)) - 1
    if which == 'random':
        return rand_digits(rnd, n, 0)
    if which == 'sparse':
        v = 1 << (64 * (n - 1) + rnd.randrange(64))
        for _ in range(rnd.randrange(3)):
            v |= rnd.getrandbits(64) << (64 * rnd.randrange(n))
        return v
    if which == 'lowzeros':
        k = rnd.randrange(1, n) if n > 1 else 0
        return rand_digits(rnd, n - k, 0) << (64 * k)
    if which == 'blocks':
        return blocks(rnd, n)
    if which == 'hiones_lo1':
        k = n // 2
        return (((1 << (64 * (n - k))) - 1) << (64 * k)) | 1
    if which == 'alt':
        return rand_digits(rnd, n, 7)
    if which == 'pow2':
        return 1 << (64 * n - 1 - rnd.randrange(64))
    raise ValueError(which)


PATTERNS = ('ones', 'random', 'sparse', 'lowzeros', 'blocks', 'hiones_lo1', 'alt', 'blocks')


def shapes(tier):
    if tier == 'quick':
        shorts = [1, 2, 3, 4, 5, 31, 32, 33, 34, 63, 64, 65, 66, 67, 69, 71, 99, 127, 128, 129, 130, 255, 256, 257, 258, 300, 385, 513]
        cap_long = 1600
    else:
        shorts = [1, 2, 3, 4, 5, 6, 16, 31, 32, 33, 34, 35, 47, 63, 64, 65, 66, 67, 68, 69, 71, 73, 95, 97, 99, 101, 127, 128, 129, 130,
                  131, 191, 193, 255, 256, 257, 258, 259, 300, 383, 384, 385, 386, 511, 512, 513, 514, 768, 769, 1000, 1025, 2048, 4096]
        cap_long = 8192
    out = []
    for s in shorts:
        longs = {s, s + 1, 2 * s - 1, 2 * s, 2 * s + 1, 3 * s - 1, 3 * s, 3 * s + 1}
        if s <= 64:
            longs.add(64 * s)
        for l in sorted(longs):
            if l >= s and l <= cap_long:
                out.append((s, l))
    return out


def workload(tier, seed, scale=1.0):
    rnd = rng_for(seed, 'C02', tier)
    cmds = []
    full_forms_max = 70
    for (s, l) in shapes(tier):
        pats = PATTERNS if (s <= 300 or tier != 'quick') else ('ones', 'random', 'blocks')
        if s >= 1000:
            pats = ('ones', 'random', 'blocks')
        for pa in pats:
            pb = rnd.choice(PATTERNS) if pa != 'ones' else 'ones'
            if scale < 1.0 and rnd.random() > scale:
                continue
            a = pattern_values(rnd, s, pa)
            b = pattern_values(rnd, l, pb)
            pat = pa + '*' + pb
            if s + l <= full_forms_max:
                cmds.append(cmd_mulv(a, b, pat))
                sa, sb = rnd.choice((1, -1)), rnd.choice((1, -1))
                cmds.append(cmd_mulv(sa * a, sb * b, pat, 'I'))
            elif s + l <= 900:
                cmds.append(cmd_mulh(a, b, pat))
                if rnd.random() < 0.3:
                    cmds.append(cmd_mulh(b, a, pat))
            else:
                cmds.append(cmd_mulh(a, b, pat))
        # squares
        a = pattern_values(rnd, l, rnd.choice(PATTERNS))
        cmds.append(cmd_mulh(a, a, 'square') if l > 35 else cmd_mulv(a, a, 'square'))
        # Karatsuba middle-term sign cases: split point is len(x)/2 for the shorter operand x
        if 33 <= s <= 256 and l < 2 * s:
            b0 = s // 2
            for rx in ('lt', 'gt', 'eq'):
                for ry in ('lt', 'gt', 'eq'):
                    x = with_halves(rnd, s, b0, rx)
                    y = with_halves(rnd, l, b0, ry)
                    if x is None or y is None:
                        continue
                    cmds.append(cmd_mulh(x, y, 'kara_%s_%s' % (rx, ry)))
    # the (B^k-1)*B^k+1 family at every odd/even k across the Karatsuba range (nested odd lengths)
    ks = range(17, 140) if tier == 'quick' else range(17, 300)
    for k in ks:
        v = (((1 << (64 * k)) - 1) << (64 * k)) | 1
        cmds.append(cmd_mulh(v, v, 'hiones_lo1_sq'))
        if tier != 'quick' or k % 3 == 0:
            w = (((1 << (64 * (k + 1))) - 1) << (64 * k)) | rnd.getrandbits(64)
            cmds.append(cmd_mulh(v, w, 'hiones_lo1_x'))
    # digit-aligned block patterns around the Karatsuba thresholds (carry into saturated digits)
    nblk = int((5000 if tier == 'quick' else 12000) * scale)
    for _ in range(nblk):
        s = rnd.choice((33, 34, 35, 36, 40, 48, 64, 65, 66, 67, 70, 80, 100, 129, 130, 257, 260))
        l = rnd.choice((s, s, s + 1, s + 2, 2 * s - 1, s + s // 2))
        a = blocks(rnd, s, maxrun=rnd.choice((3, 8, 20, s)))
        b = blocks(rnd, l, maxrun=rnd.choice((3, 8, 20, l)))
        cmds.append(cmd_mulh(a, b, 'blocks2'))
    # Toom-3 with an empty top part of x:  2*len(x) > len(y) and len(x) <= 2*(len(y)/3+1)
    for (lx, ly) in ((402, 600), (342, 510), (258, 387), (514, 770)):
        if tier == 'quick' and lx > 410:
            continue
        for pa in ('ones', 'random', 'blocks'):
            cmds.append(cmd_mulh(pattern_values(rnd, lx, pa), pattern_values(rnd, ly, pa), 'toom_x2empty'))
    # scalar fast paths (power-of-two scalar, 0, 1) and two-digit scalars
    for n in (0, 1, 2, 5, 40):
        a = rand_digits(rnd, n, 0)
        for ty, svals in (('u32', (0, 1, 2, 1 << 31, 3, 0xffffffff)), ('u64', (0, 1, 1 << 63, 1 << 32, M64, 10)),
                          ('u128', (0, 1, 1 << 64, 1 << 127, (1 << 128) - 1, 1 << 100, (1 << 64) + 1))):
            for sv in svals:
                cmds.append(cmd_sf('C02', 'mul', ty, a, sv, 'U', cell=('sf', 'mul', ty, n, sv.bit_length())))
                cmds.append(cmd_sf('C02', 'mul', ty, -a, sv, 'I', cell=('sf', 'mulI', ty, n, sv.bit_length())))
    # short multipliers (1..3 digits) built from a carry-prone digit alphabet against longer operands from the same alphabet:
    # a dedicated few-digit fast path has its own carry bookkeeping that random digits never stress
    alpha = [0, 1, 2, 3, M64, M64 - 1, M64 - 2, 1 << 63, (1 << 63) + 1, (1 << 63) - 1, 1 << 32, (1 << 32) - 1, 0xffffffff00000000, 0x5555555555555555, 0xaaaaaaaaaaaaaaaa]
    shorts = [(a,) for a in alpha if a] + [(a, b) for a in alpha for b in alpha if b] + [tuple(rnd.choice(alpha) for _ in range(2)) + (rnd.choice(alpha[1:]),) for _ in range(60)]
    for ds in shorts:
        if scale < 1.0 and rnd.random() > scale:
            continue
        x = sum(d << (64 * i) for i, d in enumerate(ds))
        for _ in range(1 if tier == 'quick' else 3):
            ly = rnd.choice((2, 3, 4, 5, 6, 9, 17, 33, 40))
            yd = [rnd.choice(alpha) for _ in range(ly)]
            yd[-1] = yd[-1] or 1
            y = sum(d << (64 * i) for i, d in enumerate(yd))
            if rnd.random() < 0.5:
                cmds.append(cmd_mulv(x, y, 'alpha-short', 'U'))
            else:
                cmds.append(cmd_mulv(-x, y * rnd.choice((1, -1)), 'alpha-short', 'I'))
            if len(ds) == 2 and rnd.random() < 0.3:
                sv = x
                cmds.append(cmd_sf('C02', 'mul', 'u128', y, sv, 'U', cell=('sf-alpha', 'u128', ly)))
    # every scalar type at its extremes (MIN, MIN+1, MAX, 2^k +- 1) through every form incl. the compound-assignment ones
    from ..arith import UTYPES, ITYPES, scalar_extremes
    for ty in UTYPES + ITYPES:
        ext = scalar_extremes(ty)
        for sv in (ext if tier != 'quick' else ext[:3] + ext[-3:] + rnd.sample(ext, 3)):
            for n in (0, 1, 2, 5):
                if scale < 1.0 and rnd.random() > scale:
                    continue
                a = rand_digits(rnd, n, 0)
                if ty in UTYPES:
                    cmds.append(cmd_sf('C02', 'mul', ty, a, sv, 'U', cell=('sf-ext', 'mul', ty, n, sv.bit_length())))
                cmds.append(cmd_sf('C02', 'mul', ty, rnd.choice((1, -1)) * a, sv, 'I', cell=('sf-ext', 'mulI', ty, n, sv.bit_length(), sv < 0)))
    # special-value pool pairs
    from ..core import special_values
    pool = special_values()
    for a in pool:
        for b in (pool if tier != 'quick' else pool[::4] + [a]):
            if scale < 1.0 and rnd.random() > scale:
                continue
            cmds.append(cmd_mulv(a, b, 'pool'))
            cmds.append(cmd_mulv(-a, b * rnd.choice((1, -1)), 'pool', 'I'))
    # zero operands
    for a in (0, 1, M64, 1 << 64):
        for b in (0, 1, (1 << 4000) - 1):
            cmds.append(cmd_mulv(a, b, 'edge'))
            cmds.append(cmd_mulv(-a, b, 'edge', 'I'))
    # seeded random sizes
    nrand = int((1500 if tier == 'quick' else 4000) * scale)
    for _ in range(nrand):
        la = int(600 ** rnd.random())
        lb = int(600 ** rnd.random())
        cmds.append(cmd_mulh(rand_digits(rnd, la), rand_digits(rnd, lb), 'rand'))
    return cmds


def stages(tier, seed):
    cmds = workload(tier, seed)
    groups = [[c] for c in cmds]
    return [dict(label='rel', variant='rel', groups=groups, floors=FLOORS),
            dict(label='dbg', variant='dbg', groups=groups, floors=FLOORS, timeout=2400)]
