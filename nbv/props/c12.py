"""C12 - exponentiation is exact for every exponent type."""
from ..core import rng_for, rand_digits, M64, ndig
from ..arith import UTYPES, STYPES
from ..oracles import cmd_pw, cmd_pwb

THOROUGH_SEEDS = 30   # the thorough tier repeats its staged workload over this many derived seeds
RULE = ('bases 0, +-1, +-2, single- and multi-digit, negative, exact powers of two incl. 2^k with k >= 256; exponents 0..=300 '
        'exhaustively through all six primitive exponent types and the four val/ref forms (small exponents for narrow types), '
        '2^k, 2^k+-1, random bit patterns up to 2^12 with small bases; BigUint exponents incl. the u64/u128 conversion edges with '
        'base 0 or +-1; structured 2..40-digit bases built from a carry-prone digit pool with exponents 2..16; 0^0 = 1 in every form; sign rule for BigInt. A cell is (base family, exponent bit pattern class, type, kind)')
ASSUMPTIONS = ['CPython ** is the reference']


def workload(tier, seed, scale=1.0):
    rnd = rng_for(seed, 'C12', tier)
    quick = tier == 'quick'
    cmds = []
    bases = [('zero', 0), ('one', 1), ('two', 2), ('three', 3), ('four', 4), ('ten', 10), ('u32max', 0xffffffff), ('u64max', M64), ('2^64', 1 << 64),
             ('2^16', 1 << 16), ('2^255', 1 << 255), ('2^256', 1 << 256), ('2^300', 1 << 300), ('multi', rand_digits(rnd, 3, 0)), ('multi5', rand_digits(rnd, 5, 0) | 1)]
    def eclass(e):
        tz = (e & -e).bit_length() - 1 if e else -1
        return (min(tz, 9), bin(e).count('1') if e < 1024 else 'big', e.bit_length())
    for fam, b in bases:
        maxe = 300 if b.bit_length() <= 64 else 40
        if b.bit_length() > 200:
            maxe = 300 if quick else 600   # large shifts of a single bit are cheap
            if b & (b - 1):
                maxe = 30
        exps = list(range(0, maxe + 1))
        exps += [1 << k for k in range(9, 13)] + [(1 << k) + d for k in range(9, 13) for d in (-1, 1)] if b.bit_length() <= 2 else []
        for e in exps:
            if scale < 1.0 and rnd.random() > scale:
                continue
            if b > 1 and e * b.bit_length() > 400000:
                continue
            tys = [t for t in UTYPES if STYPES[t][1] >= e]
            ty = tys[(e + len(fam)) % len(tys)]
            neg = (e + len(fam)) % 3 == 0
            kind = 'I' if neg or e % 2 else 'U'
            cmds.append(cmd_pw('C12', ty, -b if (neg and kind == 'I') else b, e, kind, cell=(fam, eclass(e), ty, kind, neg)))
            if e <= 255 and b.bit_length() > 64 and e % 5 == 0:
                # narrow exponent types with wide bases (shift amounts that do not fit the exponent type)
                cmds.append(cmd_pw('C12', 'u8', b, e, 'U', cell=(fam, eclass(e), 'u8', 'U', 'wide')))
                cmds.append(cmd_pw('C12', 'u16', -b, e, 'I', cell=(fam, eclass(e), 'u16', 'I', 'wide')))
    # every type, small exponents, all base signs
    for ty in UTYPES:
        hi = STYPES[ty][1]
        for e in sorted({0, 1, 2, 3, 7, 8, 15, 16, 17, 31, 32, 33, 63, 64, 65, 127, 128, 200, 255} | ({hi} if hi <= 255 else set())):
            if e > hi:
                continue
            for b in (0, 1, -1, 2, -2, 3, -3, 7, -(1 << 64) - 1, (1 << 40) + 1):
                cmds.append(cmd_pw('C12', ty, b, e, 'I', cell=('alltypes', ty, e, (b > 0) - (b < 0), abs(b).bit_length())))
                if b >= 0:
                    cmds.append(cmd_pw('C12', ty, b, e, 'U', cell=('alltypes', ty, e, 'U', b.bit_length())))
        # type MAX with bases 0, +-1
        for b in (0, 1, -1):
            for e in (hi, hi - 1):
                cmds.append(cmd_pw('C12', ty, b, e, 'I', cell=('maxexp', ty, b, e & 1)))
                if b >= 0:
                    cmds.append(cmd_pw('C12', ty, b, e, 'U', cell=('maxexp', ty, b, 'U')))
    # exponents whose low 32 / 64 bits are zero (wide exponent types), bases 0 and +-1 only
    for ty in ('u64', 'usize', 'u128'):
        hi = STYPES[ty][1]
        for e in (1 << 32, 3 << 32, (1 << 32) + 1, 1 << 33, 1 << 63, (1 << 63) + (1 << 32), 1 << 64, 5 << 64, (1 << 64) + 1, 1 << 96, 1 << 127, hi - (1 << 32) + 1):
            if e > hi:
                continue
            for b in (0, 1, -1):
                cmds.append(cmd_pw('C12', ty, b, e, 'I', cell=('wide-exp', ty, b, e.bit_length(), e & 0xffffffff == 0)))
                if b >= 0:
                    cmds.append(cmd_pw('C12', ty, b, e, 'U', cell=('wide-exp', ty, b, 'U', e.bit_length(), e & 0xffffffff == 0)))
    # structured multi-digit bases (digits drawn from a pool of carry-prone values) with small exponents: a dedicated
    # squaring / power routine has its own carry chains, which random digits never stress
    pool = [0, 1, 2, 3, M64, M64 - 1, M64 - 2, 1 << 63, (1 << 63) + 1, (1 << 63) - 1, 1 << 32, (1 << 32) - 1, (1 << 32) + 1, 0xffffffff00000000,
            0x5555555555555555, 0xaaaaaaaaaaaaaaaa, 0xfffffffefffffffe]
    combos = [(a, b) for a in pool for b in pool if b]
    for nd in (3, 4, 4, 5, 6, 8, 12, 16, 24, 32, 33, 40):
        for _ in range((60 if quick else 200) if nd <= 5 else 12):
            ds = [rnd.choice(pool) for _ in range(nd)]
            ds[-1] = ds[-1] or 1
            combos.append(tuple(ds))
    for ds in combos:
        if scale < 1.0 and rnd.random() > scale:
            continue
        b = sum(d << (64 * i) for i, d in enumerate(ds))
        e = rnd.choice((2, 2, 2, 3, 4, 5, 6, 7, 9, 16))
        ty = rnd.choice(UTYPES)
        kind = rnd.choice('UI')
        cmds.append(cmd_pw('C12', ty, -b if (kind == 'I' and rnd.random() < 0.5) else b, e, kind, cell=('structured', len(ds), e, ty, kind)))
    # special-value bases (primitive-type and word boundaries, repeated digits) with small exponents, both signs
    from ..core import special_values
    for b in special_values()[::(2 if quick else 1)]:
        for e in (2, 3, 4, 5, 8):
            if b.bit_length() * e > 3000:
                continue
            if scale < 1.0 and rnd.random() > scale:
                continue
            ty = rnd.choice(UTYPES)
            cmds.append(cmd_pw('C12', ty, b, e, 'U', cell=('pool', min(ndig(b), 6), e, ty, 'U')))
            cmds.append(cmd_pw('C12', ty, -b, e, 'I', cell=('pool', min(ndig(b), 6), e, ty, 'I')))
    # BigUint exponents
    for e in [0, 1, 2, 3, 10, 64, 65, 300, M64, 1 << 64, (1 << 64) + 1, (1 << 128) - 1, 1 << 128, (1 << 128) + 1, (1 << 200) + 1, 1 << 200]:
        for b in (0, 1, -1):
            cmds.append(cmd_pwb('C12', b, e, 'I', cell=('pwb', b, e.bit_length(), e & 1)))
            if b >= 0:
                cmds.append(cmd_pwb('C12', b, e, 'U', cell=('pwb', b, e.bit_length(), 'U')))
        if e <= 300:
            for b in (2, -2, 3, -7, (1 << 64) + 3, -(1 << 70)):
                cmds.append(cmd_pwb('C12', b, e, 'I', cell=('pwb', 'big', e, b < 0)))
                if b >= 0:
                    cmds.append(cmd_pwb('C12', b, e, 'U', cell=('pwb', 'big', e, 'U')))
    return cmds


def stages(tier, seed):
    cmds = workload(tier, seed)
    groups = [[c] for c in cmds]
    return [dict(label='rel', variant='rel', groups=groups), dict(label='dbg', variant='dbg', groups=groups)]
