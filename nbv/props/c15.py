"""C15 - unsafe code never touches memory outside its buffers nor yields invalid UTF-8."""
import importlib

from ..core import rng_for, rand_digits, M64, ndig
from ..arith import cmd_bb, cmd_divall
from ..oracles import cmd_tostr, cmd_fmt
from .c18 import cmd_rand
from . import c01, c02, c03, c05, c06

THOROUGH_SEEDS = 2   # the thorough tier repeats its staged workload over this many derived seeds
RULE = ('sanitizers watching the real code: (1) a guard-page global allocator in the driver - every heap block ends (mode end) or '
        'starts (mode start) at an inaccessible page and freed blocks become inaccessible - under an EXHAUSTIVE (len a, len b) sweep '
        'of + and - in every big-by-big form on operands that exactly fill their allocation (clones) and on operands with slack, '
        'plus multiplication / division / radix parsing shapes that call the asm loops on sub-slices, and the text / radix / gen_biguint part again with the library built without std; (2) valgrind memcheck on the '
        'release driver (sees loads/stores inside asm!) on a reduced sweep; (3) AddressSanitizer (nightly) on gen_biguint for every '
        'bit size 0..=4160 and the add/sub sweep (does not see inside asm!); (4) every by-reference operand is compared with the '
        'script after the call; (5) every String produced by to_str_radix / formatters over all radices is validated byte-wise. '
        'A fault is a SIGSEGV/SIGBUS attributed to the command named by the BEGIN marker, or a tool report. A cell is (stage, op, '
        'len a, len b, family); non-trivial if the asm loop ran (probes) or the command is a gen_biguint size / text conversion')
ASSUMPTIONS = ['overruns that stay inside a larger allocation (asm called on a sub-slice by mul/div/parse) are invisible to allocator-level tools; there the value oracles of C02/C03/C06 are the detector',
               'the asm operand-constraint mismatch (an `in` register that the loop decrements) has no runtime symptom and cannot be observed']


def asm_ran(res):
    return 'AddAsmEntered' in res.probes or 'SubAsmEntered' in res.probes


def sweep(rnd, L, fams=('ones', 'rand')):
    cmds = []
    for la in range(0, L + 1):
        for lb in range(0, L + 1):
            for fam in fams:
                if fam == 'ones':
                    a, b = (1 << (64 * la)) - 1, (1 << (64 * lb)) - 1
                else:
                    a, b = rand_digits(rnd, la, 0), rand_digits(rnd, lb, 0)
                cmds.append(cmd_bb('C15', 'add', a, b, 'U', cell=('add', la, lb, fam), nontrivial=asm_ran))
                cmds.append(cmd_bb('C15', 'sub', a, b, 'U', cell=('sub', la, lb, fam), nontrivial=asm_ran))
                if fam == 'rand' and (la + lb) % 4 == 0:
                    cmds.append(cmd_bb('C15', 'sub', -a, b, 'I', cell=('subI', la, lb, fam), nontrivial=asm_ran))
    return cmds


def gen_sizes(maxbits, step=1):
    cmds = []
    for n in range(0, maxbits + 1, step):
        for tail in ('o', 's5'):
            c = cmd_rand('biguint', b'', tail, [n], ('gen', n % 64, n // 64))
            c.prop = 'C15'
            c.nontrivial = True
            cmds.append(c)
        if n % 9 == 0:
            c = cmd_rand('bigint', b'\x01', 's9', [n], ('geni', n % 64))
            c.prop = 'C15'
            cmds.append(c)
    return cmds


def text(rnd, quick):
    cmds = []
    for radix in range(2, 37):
        for v in (0, 1, radix - 1, radix ** 7, M64, rand_digits(rnd, 3, 0), rand_digits(rnd, 70, 0) if (not quick or radix % 5 == 0) else rand_digits(rnd, 9, 0)):
            for kind, av in (('U', v), ('I', -v)):
                c = cmd_tostr(av, radix, kind, cell=('tostr', radix, min(ndig(v), 5)))
                c.prop = 'C15'
                cmds.append(c)
    # radices outside 2..=36 must panic; if one ever returns, the String must still be valid text
    for radix in (37, 62, 64, 100, 128, 200, 255, 256, 257, 1 << 16):
        for v in (0x29, 0xff, M64, rand_digits(rnd, 3, 0), (1 << 200) - 1):
            for kind, av in (('U', v), ('I', -v)):
                c = cmd_tostr(av, radix, kind, cell=('tostr-badradix', radix))
                c.prop = 'C15'
                cmds.append(c)
    for fid in range(0, 40, 3):
        c = cmd_fmt(-rand_digits(rnd, 4, 0), fid, 30, 'I', cell=('fmt', fid))
        c.prop = 'C15'
        cmds.append(c)
    return cmds


def sub_slices(rnd, seed, quick):
    """mul / div / parse shapes whose inner add/sub run the asm loops on sub-slices"""
    cmds = []
    cmds += c02.workload('quick', seed, 0.05 if quick else 0.3)
    cmds += c03.workload('quick', seed, 0.05 if quick else 0.3)
    cmds += c06.workload('quick', seed, 0.05 if quick else 0.3)
    cmds += c05.workload('quick', seed, 0.03 if quick else 0.2)
    return cmds


def stages(tier, seed):
    rnd = rng_for(seed, 'C15', tier)
    quick = tier == 'quick'
    L = 64
    sw = sweep(rnd, L, ('ones', 'rand') if not quick else ('ones',)) if True else []
    if quick:
        sw += sweep(rnd, 20, ('rand',))
    extra = sub_slices(rnd, seed, quick) + text(rnd, quick) + gen_sizes(4160 if not quick else 1100, 1)
    g_end = [[c] for c in sw + extra]
    floors = ['AddAsmEntered', 'SubAsmEntered', 'AddTailAfterAsm', 'SubTailAfterAsm']
    st = [
        dict(label='guard-end', variant='guard-rel', groups=g_end, env={'NBD_GUARD': 'end'}, floors=floors, timeout=1200),
        dict(label='guard-start', variant='guard-rel', groups=[[c] for c in sw], env={'NBD_GUARD': 'start'}, floors=floors, timeout=1200),
    ]
    # the same allocator with the library built without std: buffer-size estimates and guesses that exist only in that
    # configuration (radix conversion capacity, root guesses) feed raw writes / unchecked conversions too
    ns = text(rnd, quick) + c06.workload('quick', seed, 0.08 if quick else 0.4) + sweep(rnd, 12, ('ones',)) + gen_sizes(300 if quick else 1400, 3)
    st.append(dict(label='guard-end-nostd', variant='guard-nostd-rel', groups=[[c] for c in ns], env={'NBD_GUARD': 'end'}, timeout=1200))
    vg = sweep(rnd, 12 if quick else 27, ('ones',)) + gen_sizes(200 if quick else 700, 3 if quick else 1) + text(rnd, True)[:: (6 if quick else 2)]
    st.append(dict(label='valgrind', variant='rel', tool='valgrind', groups=[[c] for c in vg], floors=['AddAsmEntered', 'SubAsmEntered'], timeout=2400))
    # Miri (UB interpreter incl. Stacked Borrows) on foreign targets for the non-asm unsafe code: the u64->u32 view in
    # gen_biguint exists only with 64-bit digits (aarch64, big-endian s390x); from_utf8_unchecked on all
    from ..cross import portable
    mi = portable(gen_sizes(300 if quick else 1400, 7 if quick else 3) + text(rnd, True)[::(9 if quick else 3)] + sweep(rnd, 6 if quick else 11, ('ones',)))
    st.append(dict(label='miri-aarch64', variant='miri-aarch64', tool='miri:aarch64', groups=[[c] for c in mi], shard_min=8, timeout=1800))
    st.append(dict(label='miri-s390x', variant='miri-s390x', tool='miri:s390x', groups=[[c] for c in mi[::2]], shard_min=8, timeout=1800))
    if not quick:
        st.append(dict(label='guard-end-dbg', variant='guard-dbg', groups=[[c] for c in sw], env={'NBD_GUARD': 'end'}, floors=floors, timeout=2400))
        asan = gen_sizes(4160, 1) + sweep(rnd, 30, ('ones',)) + text(rnd, True)
        st.append(dict(label='asan', variant='asan', groups=[[c] for c in asan], timeout=2400,
                       env={'ASAN_OPTIONS': 'halt_on_error=1:abort_on_error=1:detect_leaks=0'}))
    return st
