"""C14 - operations fail only in their documented cases, and checked variants never panic."""
import importlib

from ..core import rng_for, rand_digits, M64, ndig
from ..arith import cmd_bb, cmd_sf, cmd_srem, cmd_divall, UTYPES, ITYPES, STYPES
from ..oracles import (cmd_sh, cmd_tostr, cmd_toradix, cmd_fromstr, cmd_fromradix, cmd_root, cmd_par, cmd_pw, cmd_gcd)
from .c05 import cmd_modpow, cmd_modinv
from .c18 import cmd_rand

THOROUGH_SEEDS = 6   # the thorough tier repeats its staged workload over this many derived seeds
RULE = ('the panic oracle over the union of all other properties\' workloads (every event records panicked / returned; the model '
        'knows the documented failure set), run in BOTH debug (debug assertions + overflow checks: an internal assertion firing on '
        'a valid input is a violation) and release, plus a dedicated table calling every checked_* method and every panicking API '
        'with its failure input across operand sizes 0, 1, 5, 40 digits (division/remainder by zero in every form and scalar type, '
        'BigUint underflow in every form, negative shift amounts of every signed type, radix outside 2..=36 / 2..=256 for every '
        'radix-taking API, zero modulus, negative exponent, even root of a negative, zeroth root, empty/inverted ranges and zero '
        'bound); process deaths (SIGFPE/SIGSEGV/SIGABRT, allocation blow-up under an address-space cap) are attributed to the '
        'command named by the BEGIN marker; open-ended loops (Newton fixpoint, Stein gcd, modinv Euclid, rejection sampling) run '
        'under logical step budgets.  A cell is (api, failure kind, operand size class, form/type)')
ASSUMPTIONS = ['"fails to terminate" is decided as bounded progress on the hooked loops only; a wall-clock watchdog firing is reported as inconclusive, never as a violation',
               'operations whose result cannot fit in memory are out of scope and not generated']

SLICES = [('c01', 0.06), ('c02', 0.3), ('c03', 0.5), ('c05', 0.1), ('c06', 0.5), ('c07', 0.4), ('c08', 0.3), ('c09', 0.05), ('c10', 0.4),
          ('c11', 1.0), ('c12', 0.5), ('c13', 1.0), ('c17', 0.5), ('c18', 0.5), ('c19', 1.0)]


def table(rnd):
    cmds = []
    sizes = (0, 1, 5, 40)
    for n in sizes:
        a = rand_digits(rnd, n, 0)
        cell = lambda *x: ('table',) + x + (n,)
        # division / remainder by zero: operators (all forms), every named API, checked_*
        for kind, av in (('U', a), ('I', a), ('I', -a)):
            cmds.append(cmd_bb('C14', 'div', av, 0, kind, cell=cell('bb', 'div0', kind)))
            cmds.append(cmd_bb('C14', 'rem', av, 0, kind, cell=cell('bb', 'rem0', kind)))
            cmds.append(cmd_divall('C14', av, 0, kind, cell=cell('divall', 'zero', kind, av < 0)))
            cmds.append(cmd_divall('C14', av, 3 if kind == 'U' else -3, kind, cell=cell('divall', 'nonzero', kind, av < 0)))
        for ty in UTYPES + ITYPES:
            # big / 0scalar (forward forms panic), 0scalar / big is fine unless big == 0 (reverse forms panic)
            for op in ('div', 'rem'):
                if ty in UTYPES:
                    cmds.append(cmd_sf('C14', op, ty, a, 0, 'U', cell=cell('sf', op + '0', ty, 'U')))
                cmds.append(cmd_sf('C14', op, ty, -a, 0, 'I', cell=cell('sf', op + '0', ty, 'I')))
            cmds.append(cmd_srem('C14', ty, STYPES[ty][1], 0, cell=cell('srem0', ty)))
            cmds.append(cmd_srem('C14', ty, STYPES[ty][0], 0, cell=cell('srem0min', ty)))
        # BigUint subtraction below zero: every form, scalar forms, dec of zero; checked_sub = None exactly then
        b = a + 1 + rand_digits(rnd, rnd.choice((0, 1, n + 1)), 0)
        cmds.append(cmd_bb('C14', 'sub', a, b, 'U', cell=cell('bb', 'underflow')))
        cmds.append(cmd_bb('C14', 'sub', b, a, 'U', cell=cell('bb', 'no-underflow')))
        cmds.append(cmd_bb('C14', 'sub', a, a, 'U', cell=cell('bb', 'equal')))
        # subtrahend longer than the minuend with low digits that do not borrow (reverse-subtraction paths)
        for hi in (1, 1 << 64, 1 << 128, (1 << 64) + 1):
            bb = (hi << (64 * max(n, 1))) | (a >> 1)
            cmds.append(cmd_bb('C14', 'sub', a, bb, 'U', cell=cell('bb', 'underflow-long', hi.bit_length())))
        for ty in UTYPES:
            hi_t = STYPES[ty][1]
            for sv in (1, hi_t):
                if a < sv:
                    cmds.append(cmd_sf('C14', 'sub', ty, a, sv, 'U', cell=cell('sf', 'underflow', ty)))
                big = (1 << (64 * max(1, ndig(hi_t)))) | rnd.randrange(0, sv)
                cmds.append(cmd_sf('C14', 'sub', ty, big, sv, 'U', cell=cell('sf', 'rev-underflow', ty)))
        # negative shift amounts
        for ty in ITYPES:
            for s in (-1, STYPES[ty][0]):
                for which in ('shl', 'shr'):
                    cmds.append(cmd_sh('C14', which, ty, a, s, 'U', cell=cell('sh', 'neg', which, ty, 'U')))
                    cmds.append(cmd_sh('C14', which, ty, -a, s, 'I', cell=cell('sh', 'neg', which, ty, 'I')))
        # radix out of range for every radix-taking API
        for radix in (0, 1, 37, 257, 512, 1 << 31):
            for kind, av in (('U', a), ('I', -a)):
                cmds.append(cmd_toradix(av, radix, kind, cell=cell('toradix', radix, kind)))
                cmds.append(cmd_tostr(av, radix, kind, cell=cell('tostr', radix, kind)))
                cmds.append(cmd_fromstr(b'101', radix, kind, cell=cell('fromstr', radix, kind)))
            for ks in ('U', 'I+', 'I-'):
                cmds.append(cmd_fromradix([1, 0, 1][:max(1, min(n, 3))] if n else [], radix, ks, cell=cell('fromradix', radix, ks)))
        # modulus zero, negative exponent
        e = rand_digits(rnd, rnd.choice((0, 1, 2)), 0)
        cmds.append(cmd_modpow(a, e, 0, 'U', cell('modpow', 'm0', 'U')))
        cmds.append(cmd_modpow(-a, e, 0, 'I', cell('modpow', 'm0', 'I')))
        cmds.append(cmd_modpow(a, -1 - e, 7, 'I', cell('modpow', 'negexp')))
        cmds.append(cmd_modpow(-a, -1 - e, -(a | 1) - 2, 'I', cell('modpow', 'negexp2')))
        cmds.append(cmd_modinv(a, 0, 'U', cell('modinv', 'm0', 'U')))
        cmds.append(cmd_modinv(-a, 0, 'I', cell('modinv', 'm0', 'I')))
        # roots
        for deg in (0, 2, 4, 64, 1000):
            cmds.append(cmd_root(-a - 1, deg, 'I', cell=cell('root', 'neg', deg)))
        cmds.append(cmd_root(a, 0, 'U', cell=cell('root', 'zeroth', 'U')))
        cmds.append(cmd_root(a, 0, 'I', cell=cell('root', 'zeroth', 'I')))
        cmds.append(cmd_par(0, 'U', cell=cell('dec0')))
        # random ranges
        for fn, args in (('below', [0]), ('urange', [a, a]), ('urange', [a + 1, a]), ('irange', [-a, -a]), ('irange', [a + 1, -a]), ('uni_u', [a, a]),
                         ('uni_i', [a, -a - 1]), ('uni_u_inc', [a + 1, a]), ('uni_i_inc', [-a, -a - 1]), ('range_u', [a, a]), ('range_i_inc', [1 - a, -a]),
                         ('single_u', [a + 5, a]), ('single_i', [a, a])):
            c = cmd_rand(fn, b'', 'c', args, ('table', n))
            if c:
                c.prop = 'C14'
                cmds.append(c)
    return cmds


def workload(tier, seed, scale=1.0):
    rnd = rng_for(seed, 'C14', tier)
    cmds = table(rnd)
    for name, sc in SLICES:
        mod = importlib.import_module('nbv.props.' + name)
        # thorough: the full quick-tier workload of every property (not their thorough tiers: the union would not fit
        # in memory) plus a second seed of each at the slice scale
        runs = [(seed, sc * scale)] if tier == 'quick' else [(seed, 1.0 * scale), (seed + 7919, min(1.0, 2 * sc) * scale)]
        for sd, s in runs:
            try:
                w = mod.workload('quick', sd, s)
            except TypeError:
                w = mod.workload('quick', sd)
            if isinstance(w, tuple):
                w = [c for g in w[0] for c in g] + w[1]
            cmds += w
    return cmds


def stages(tier, seed):
    cmds = workload(tier, seed)
    groups = [[c] for c in cmds]
    return [dict(label='dbg', variant='dbg', groups=groups, timeout=1800), dict(label='rel', variant='rel', groups=groups, timeout=1800)]
