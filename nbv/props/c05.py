"""C05 - modular exponentiation and modular inverse are exact for every modulus."""
import math

from ..core import rng_for, rand_digits, M64, ndig, Cmd, U, I, PANIC, Problem, chk_big, BV
from ..arith import tok

B = 1 << 64
THOROUGH_SEEDS = 8   # the thorough tier repeats its staged workload over this many derived seeds
RULE = ('moduli of 1..24 digits: odd (Montgomery) and even (square-and-multiply), top digit 1 / random / MAX, all-ones '
        'digits, 2^k-c, 1, 2, 2^k, 2^k*odd; bases shorter / equal length & >= m / longer than m, 0, 1, m-1, m, m+1; '
        'exponents 0,1,2, 2^k, 2^k-1, zero 4-bit windows, multi-digit with zero low digits; BigInt sign combinations, '
        'm = +-1, negative exponent and zero modulus; modinv over coprime and non-coprime pairs with the documented '
        'interval and b*x = 1 (mod m) asserted directly. A cell is (api, kind, signs, modulus len, parity/top class, '
        'base relation, exponent class); non-trivial if the modulus has >= 2 digits or a rare Montgomery branch was hit')
ASSUMPTIONS = ['CPython pow(b,e,m) and math.gcd are the reference']
FLOORS = ['MontyPath', 'PlainPath', 'MontyCarry', 'MontyFinalSub', 'MontyBaseLonger', 'PlainSkipZeroDigit', 'PlainEarlyReturn', 'ModinvLoop']


def model_modpow(b, e, m, kind):
    if m == 0:
        return PANIC
    if kind == 'I' and e < 0:
        return PANIC
    r = pow(b, e, abs(m))
    if m < 0 and r != 0:
        r += m
    return r


def cmd_modpow(b, e, m, kind, cell):
    line = 'modpow %s %s %s' % (tok(b, kind), tok(e, kind), tok(m, kind))
    want = model_modpow(b, e, m, kind)

    def check(res):
        got = res.val(0)
        out = chk_big('C05', got, want, 'modpow', kind)
        if isinstance(got, BV) and want is not PANIC:
            lo, hi = (0, m) if m > 0 else (m, 0)
            inside = (0 <= got.v < m) if m > 0 else (m < got.v <= 0)
            if not inside:
                out.append(Problem('C05', 'modpow: result outside the documented interval', 'got=%r m=%x' % (got, m)))
        return out

    def nt(res):
        return ndig(m) >= 2 or 'MontyCarry' in res.probes or 'MontyFinalSub' in res.probes

    return Cmd(line, check, cell=cell, nontrivial=nt, prop='C05')


def model_modinv(b, m):
    if m == 0:
        return PANIC
    am = abs(m)
    if math.gcd(b, am) != 1:
        return None
    if am == 1:
        return 0
    x = pow(b, -1, am)
    if m < 0 and x != 0:
        x -= am
    return x


def cmd_modinv(b, m, kind, cell):
    bits = max(abs(m).bit_length(), 1)
    line = 'modinv %s %s b%d' % (tok(b, kind), tok(m, kind), 64 * bits + 2000)
    want = model_modinv(b, m)

    def check(res):
        if res.budget:
            return [Problem({'C05', 'C14'}, 'modinv: exceeded its step budget (bounded-progress restatement of termination)', '')]
        got = res.val(0)
        out = chk_big('C05', got, want, 'modinv', kind)
        if isinstance(got, BV):
            x = got.v
            inside = (0 <= x < m) if m > 0 else (m < x <= 0)
            if not inside:
                out.append(Problem('C05', 'modinv: result outside the documented interval', 'x=%x m=%x' % (x, m)))
            if abs(m) > 1 and (b * x - 1) % abs(m) != 0:
                out.append(Problem('C05', 'modinv: b*x != 1 (mod m)', 'x=%x' % x))
            if math.gcd(b, abs(m)) != 1:
                out.append(Problem('C05', 'modinv: returned Some although gcd(b,m) != 1', ''))
        return out

    return Cmd(line, check, cell=cell, nontrivial=lambda res: ndig(m) >= 2, prop='C05')


def moduli(rnd, quick):
    out = []
    lens = list(range(1, 9)) + [12, 16, 24] if quick else list(range(1, 25))
    for n in lens:
        for top in ('one', 'rand', 'max', 'small', 'half'):
            t = {'one': 1, 'rand': rnd.getrandbits(64) | 1, 'max': M64, 'small': rnd.randrange(2, 1 << 16), 'half': 1 << 63}[top]
            low = rnd.getrandbits(64 * (n - 1)) if n > 1 else 0
            m = (t << (64 * (n - 1))) | low
            out.append(('odd_' + top, m | 1))
            out.append(('even_' + top, (m | 1) + 1 if (m | 1) + 1 < (1 << (64 * n)) else m & ~1 or 2))
        out.append(('allones', (1 << (64 * n)) - 1))
        out.append(('pow2', 1 << (64 * n - 1)))
        out.append(('pow2odd', (rnd.getrandbits(64) | 1) << (64 * (n - 1)) if n > 1 else 6))
        for c in (1, 3, 19, 159, (1 << 32) + 1):
            k = 64 * n - rnd.choice((0, 0, 1, 7))
            if (1 << k) - c > 2:
                out.append(('2^k-c', (1 << k) - c))
        out.append(('2^k+c', (1 << (64 * n - 64 + 1)) + rnd.choice((1, 3, 9))))
    for m in (1, 2, 3, 4, 255, 256, 257, M64, 1 << 64, (1 << 64) + 1, (1 << 127) - 1, (1 << 128) - 1, (1 << 255) - 19, (1 << 521) - 1, (1 << 192) - 1):
        out.append(('special', m))
    return out


def exponents(rnd, quick):
    e = [0, 1, 2, 3, 15, 16, 17, 0xf0f0f0f0, 0x10000000f, (1 << 63), M64, 1 << 64, (1 << 64) + 1, (1 << 64) * 3, 1 << 128, (1 << 128) + (1 << 64),
         (1 << 130) - 1, 5 << 64, (rnd.getrandbits(64) | 1) << 128, rnd.getrandbits(70), rnd.getrandbits(200), (1 << 200), 0x8000000000000001]
    if quick:
        return e
    return e + [rnd.getrandbits(64 * k) for k in (1, 2, 3, 4, 6)] + [(1 << (64 * k)) * rnd.getrandbits(10) for k in (1, 2, 3)] + [1 << k for k in (4, 60, 65, 192)]


def eclass(e):
    if e < 4:
        return e
    low0 = 0
    x = e
    while x and x & M64 == 0:
        x >>= 64
        low0 += 1
    return (ndig(e), low0, e & 1)


def workload(tier, seed, scale=1.0):
    rnd = rng_for(seed, 'C05', tier)
    quick = tier == 'quick'
    cmds = []
    exps = exponents(rnd, quick)
    for fam, m in moduli(rnd, quick):
        n = ndig(m)
        bases = [('zero', 0), ('one', 1), ('m-1', m - 1), ('m', m), ('m+1', m + 1), ('short', rand_digits(rnd, max(1, n - 1), 0) if n > 1 else 2),
                 ('same_lt', rnd.randrange(0, m)), ('same_ge', m + rnd.randrange(0, (1 << (64 * n)) - m) if m < (1 << (64 * n)) - 1 else m),
                 ('longer', rand_digits(rnd, n + rnd.randrange(1, 3), 0)), ('near_m', max(0, m - rnd.randrange(1, 1 << 20)))]
        for bfam, b in bases:
            picks = exps if (not quick and n <= 6) else rnd.sample(exps, 4 if quick else 8)
            # keep quick runs short on long moduli with long exponents
            for e in picks:
                if scale < 1.0 and rnd.random() > scale:
                    continue
                if n > 8 and e.bit_length() > 140:
                    e = e & ((1 << 130) - 1) | 1 << 129
                cmds.append(cmd_modpow(b, e, m, 'U', ('modpow', 'U', n, fam, bfam, eclass(e))))
            # BigInt sign combinations on a subset
            e = rnd.choice(exps[:16])
            for sb in (1, -1):
                for sm in (1, -1):
                    cmds.append(cmd_modpow(sb * b, e, sm * m, 'I', ('modpow', 'I', sb, sm, n, fam, bfam, eclass(e))))
            if rnd.random() < 0.3:
                cmds.append(cmd_modpow(b, -rnd.randrange(1, 100), m, 'I', ('modpow', 'I', 'negexp', n)))
        # modinv
        for bfam, b in bases + [('rand%d' % i, rnd.getrandbits(64 * n + 3)) for i in range(3)] + [('mult', m * 3), ('shared', (m // 3 or 1) * 2)]:
            cmds.append(cmd_modinv(b, m, 'U', ('modinv', 'U', n, fam, bfam)))
            for sb in (1, -1):
                for sm in (1, -1):
                    cmds.append(cmd_modinv(sb * b, sm * m, 'I', ('modinv', 'I', sb, sm, n, fam, bfam)))
    # special-value pool as moduli and bases
    from ..core import special_values
    pool = [v for v in special_values() if v > 0]
    for m in (pool if not quick else pool[::3]):
        for b in (pool[::7] + [m - 1, m, m + 1]):
            e = rnd.choice((0, 1, 2, 3, 65537, 1 << 64))
            cmds.append(cmd_modpow(b, e, m, 'U', ('modpow', 'U', 'pool', m.bit_length() // 32, b.bit_length() // 32, eclass(e))))
            sb, sm = rnd.choice((1, -1)), rnd.choice((1, -1))
            cmds.append(cmd_modpow(sb * b, e, sm * m, 'I', ('modpow', 'I', 'pool', sb, sm, m.bit_length() // 32)))
            cmds.append(cmd_modinv(sb * b, sm * m, 'I', ('modinv', 'I', 'pool', sb, sm, m.bit_length() // 32)))
    # digit-aligned block patterns (runs of 0 / MAX / 1 digits) for base and modulus: Montgomery
    # intermediates then contain saturated and zero digits, which is where carries/borrows of the
    # conditional subtractions have to ripple through equal digits
    from .c02 import blocks
    for _ in range(int((3000 if quick else 40000) * scale)):
        n = rnd.choice((2, 3, 3, 4, 5, 6, 8))
        mk = rnd.random()
        if mk < 0.4:
            m = (1 << (64 * n)) - 1
        elif mk < 0.6:
            m = (1 << (64 * n)) - rnd.choice((1, 3, 5, (1 << 64) + 1, (1 << 64) - 1, (1 << 128) + 1 if n > 2 else 3))
        else:
            m = blocks(rnd, n, maxrun=rnd.choice((1, 2, n))) | 1
        bk = rnd.random()
        if bk < 0.5:
            b = blocks(rnd, n, maxrun=rnd.choice((1, 2, n)))
        elif bk < 0.8:
            b = m - blocks(rnd, rnd.randrange(1, n + 1), maxrun=2)
        else:
            b = m - rnd.choice((1, 2, 1 << 32, 1 << 63, 1 << 64, (1 << 64) + 1, rnd.getrandbits(62)))
        if b < 0:
            b = -b
        e = rnd.choice((2, 2, 3, 4, 5, 16, 17, 0xf0f, 1 << 64, rnd.getrandbits(16) | 1))
        cmds.append(cmd_modpow(b, e, m, 'U', ('modpow', 'U', n, 'blocks', 'blocks', eclass(e))))
    # modulus +-1, 0 with all sign combinations and operand sizes
    for bv in (0, 1, 5, -5, 1 << 64, -(1 << 200) - 1):
        for m in (1, -1, 2, -2, 0):
            cmds.append(cmd_modinv(bv, m, 'I', ('modinv', 'I', 'tiny', bv.bit_length(), m)))
            if bv >= 0 and m >= 0:
                cmds.append(cmd_modinv(bv, m, 'U', ('modinv', 'U', 'tiny', bv.bit_length(), m)))
            for e in (0, 1, 2, 1 << 64):
                cmds.append(cmd_modpow(bv, e, m, 'I', ('modpow', 'I', 'tiny', bv.bit_length(), m, e.bit_length())))
                if bv >= 0 and m >= 0:
                    cmds.append(cmd_modpow(bv, e, m, 'U', ('modpow', 'U', 'tiny', bv.bit_length(), m, e.bit_length())))
    return cmds


def stages(tier, seed):
    cmds = workload(tier, seed)
    groups = [[c] for c in cmds]
    return [dict(label='rel', variant='rel', groups=groups, floors=FLOORS),
            dict(label='dbg', variant='dbg', groups=groups, floors=FLOORS, timeout=2400)]
