"""C11 - integer roots are the exact floor roots."""
from ..core import rng_for, rand_digits, M64, ndig
from ..oracles import cmd_root, iroot

THOROUGH_SEEDS = 20   # the thorough tier repeats its staged workload over this many derived seeds
RULE = ('x: 0, 1, < 2^64 (primitive path), 2^64..2^1024 (finite f64 guess; emphasis near 2^1023..2^1024), > 2^1024 up to 2^8192 '
        '(scaled recursion incl. the power-of-two fallback), perfect powers r^n and r^n +- 1, x with bit length <= n / = n+1, '
        'values with only the top bits set over long zero tails; n: 1,2,3,4,5,7,10,63,64,65,80,100,128,1000, bits-1, bits, bits+1, '
        'u32::MAX; negative BigInt with odd n, even n and n=0 (panic); sqrt/cbrt/nth_root and the Roots trait; each result is '
        'tested directly against r^n <= x < (r+1)^n; run under std and no_std builds, debug and release, with a logical step '
        'budget on the Newton fixpoint loop. A cell is (bit-length class, n class, family, sign); non-trivial if a Newton '
        'iteration (FixClimb/FixDescend) or a guess-source probe fired')
ASSUMPTIONS = ['the floor root is characterised by the two inequalities, evaluated on CPython ints with size pre-checks']
FLOORS_STD = ['RootU64Path', 'RootF64Guess', 'RootScaled', 'RootPow2Guess', 'RootBitsLeN', 'FixDescend', 'FixClimb']
FLOORS_NOSTD = ['RootU64Path', 'RootPow2Guess', 'RootBitsLeN', 'FixDescend']


def newton_ran(res):
    return any(p in res.probes for p in ('FixClimb', 'FixDescend', 'RootScaled', 'RootF64Guess', 'RootPow2Guess'))


def bclass(b):
    for k in (1, 64, 65, 128, 512, 1000, 1023, 1024, 1025, 1100, 2048, 4096, 8192):
        if b <= k:
            return k
    return 99999


def workload(tier, seed, scale=1.0):
    rnd = rng_for(seed, 'C11', tier)
    quick = tier == 'quick'
    cmds = []
    degs = [1, 2, 3, 4, 5, 7, 10, 63, 64, 65, 80, 100, 128, 1000]

    def add(x, n, fam, kind=None):
        if scale < 1.0 and rnd.random() > scale:
            return
        k = kind or rnd.choice('UI')
        cmds.append(cmd_root(x, n, k, cell=(bclass(abs(x).bit_length()), n if n < 11 else bclass(n), fam, x < 0), budget=True))
        cmds[-1].nontrivial = newton_ran

    bitlens = [1, 2, 30, 63, 64, 65, 66, 100, 127, 128, 129, 200, 500, 1000, 1022, 1023, 1024, 1025, 1026, 1088, 1100, 1500, 2047, 2048, 2049, 3000, 4096, 8192]
    if not quick:
        bitlens = sorted(set(bitlens + list(range(60, 70)) + list(range(1015, 1035)) + [rnd.randrange(66, 9000) for _ in range(150)]))
    for bl in bitlens:
        xs = [('rand', rnd.getrandbits(bl - 1) | (1 << (bl - 1))), ('pow2', 1 << (bl - 1)), ('ones', (1 << bl) - 1),
              ('toponly', (rnd.getrandbits(min(bl, 40)) | 1 << (min(bl, 40) - 1)) << max(0, bl - 40)), ('top3', 3 << (bl - 2) if bl > 2 else 3)]
        for fam, x in xs:
            ds = degs + [bl - 1, bl, bl + 1]
            for n in ds:
                if n >= 1:
                    add(x, n, fam)
        add((1 << bl) - 1, 0xffffffff, 'maxdeg')
    # perfect powers and neighbours
    for _ in range(300 if quick else 3000):
        n = rnd.choice([2, 2, 3, 3, 4, 5, 7, 10, 17, 64, 65, 100])
        rb = rnd.choice([1, 5, 31, 32, 33, 64, 65, 100, 512])
        if rb * n > 9000:
            rb = max(1, 9000 // n)
        r = rnd.getrandbits(rb) | (1 << (rb - 1))
        p = r ** n
        for d, fam in ((0, 'perfect'), (-1, 'perfect-1'), (1, 'perfect+1')):
            add(p + d, n, fam)
        add(-(p + rnd.choice((0, -1, 1))), n if n % 2 else n + 1, 'neg-perfect', 'I')
    # small bases, every degree: r^n, r^n - 1, r^n + 1 for r in 2..12 (roots 1, 2, 3 ... at high degrees sit right at
    # the "bit length vs degree" shortcuts)
    small_degs = list(range(2, 1201)) if not quick else sorted(set(list(range(2, 40)) + list(range(190, 215)) + [253, 254, 306, 307, 400, 453, 1000, 1100] + [rnd.randrange(40, 1200) for _ in range(60)]))
    for n in small_degs:
        for r in ((2, 3, 4, 5, 7, 10, 12) if not quick else (2, 3, rnd.choice((4, 5, 6, 7, 10)))):
            p = r ** n
            add(p, n, 'small_base_pow', rnd.choice('UI'))
            add(p - 1, n, 'small_base_pow-1')
            if quick and n % 3:
                continue
            add(p + 1, n, 'small_base_pow+1')
            if n % 2:
                add(-p, n, 'small_base_neg', 'I')
    for n in (5000, 26348, 100000):
        add(3 ** n, n, 'huge_degree')
        add(3 ** n - 1, n, 'huge_degree-1')
    # sqrt/cbrt of values with only top bits set above 2^1024 (scaled guess exactness)
    for bl in (1030, 1100, 2000, 2001, 2002, 3000, 4097, 5000):
        for t in (3, 5, 7, 2, 6, 0x1234567, rnd.getrandbits(60) | 1):
            x = t << (bl - t.bit_length())
            add(x, 2, 'scaled-sq')
            add(x, 3, 'scaled-cb')
            add(x, rnd.choice((4, 5, 7)), 'scaled-n')
    # roots of the form 2^k + 1 / 3*2^k + 1: x = r^n - 1, r^n, r^n + 1 has few significant bits, converts to f64 without loss
    # and its float root rounds UP to an integer although x is not a perfect power
    for k in ((32, 33, 40, 47, 52) if quick else range(31, 54)):
        for r in ((1 << k) + 1, (3 << k) + 1, (1 << k) - 1):
            for n in (2, 3):
                for d in (-1, 0, 1):
                    add(r ** n + d, n, 'near-perfect-lossless', rnd.choice('UI'))
    # degrees in the thousands with a root well above 2 (a Newton descent from a power-of-two guess then needs many rounds)
    for (r, n) in ((4101, 3000), (5000, 1500), (3, 9000), (70000, 2000)) if not quick else ((4101, 3000), (5000, 1500)):
        add(r ** n, n, 'high-degree', 'U')
        add(r ** n - 1, n, 'high-degree-1', 'U')
    from ..core import special_values
    for v in special_values():
        for n in (1, 2, 3, 5, 7, 63, 64, 65):
            add(v, n, 'pool')
            if n % 2:
                add(-v, n, 'pool-neg', 'I')
    # negatives
    for x in (-1, -8, -9, -(1 << 64), -(1 << 200) - 1, -rand_digits(rnd, 17, 0), -rand_digits(rnd, 40, 0)):
        for n in (0, 1, 2, 3, 4, 5, 64, 65):
            add(x, n, 'neg', 'I')
    for x in (0, 1, 2, 3, 4, 7, 8, 9, 26, 27, 28, M64, 1 << 64, (1 << 64) + 1):
        for n in (0, 1, 2, 3, 4, 64, 65, 0xffffffff):
            add(x, n, 'small', 'U')
            add(x, n, 'small', 'I')
    return cmds


def stages(tier, seed):
    cmds = workload(tier, seed)
    groups = [[c] for c in cmds]
    return [dict(label='rel', variant='rel', groups=groups, floors=FLOORS_STD),
            dict(label='dbg', variant='dbg', groups=groups, floors=FLOORS_STD),
            dict(label='nostd-rel', variant='nostd-rel', groups=groups, floors=FLOORS_NOSTD),
            dict(label='nostd-dbg', variant='nostd-dbg', groups=groups, floors=FLOORS_NOSTD)]
