"""C01 - addition and subtraction are exact for every operand length and carry pattern."""
from ..core import rng_for, rand_digits, M64, ndig
from ..arith import cmd_bb

THOROUGH_SEEDS = 2   # the thorough tier repeats its staged workload over this many derived seeds
RULE = ('structured sweep exhaustive over (len a, len b) in digits x pair families x carry/borrow-chain '
        '(start,end) placements, each pair run through every big-by-big form of + and - (ref/val, '
        'assign, checked) for BigUint and the four sign combinations of BigInt, plus seeded random '
        'pairs; a cell is (op, kind, len a, len b, family) and counts as non-trivial only if the '
        "driver's probes show the x86_64 asm block loop actually ran for that command")
ASSUMPTIONS = ['CPython int arithmetic is the reference model',
               'the driver built from /repo working tree with --cfg num_bigint_verif behaves like a user build (hooks add counters only)']
FLOORS = ['AddAsmEntered', 'AddAsmCarryOut', 'AddTailAfterAsm', 'AddCarryIntoHi', 'AddCarryOutTop', 'AddSelfShorter',
          'SubAsmEntered', 'SubAsmBorrowOut', 'SubTailAfterAsm', 'SubBorrowIntoHi', 'SubRevShortOther',
          'SubRevShortOtherBorrow', 'SubUnderflow']


def asm_ran(res):
    return 'AddAsmEntered' in res.probes or 'SubAsmEntered' in res.probes


def digits(v, n):
    return [(v >> (64 * i)) & M64 for i in range(n)]


def from_digits(d):
    v = 0
    for i, x in enumerate(d):
        v |= x << (64 * i)
    return v


def nz_top(rnd, d):
    if d and d[-1] == 0:
        d[-1] = rnd.choice([1, M64, rnd.getrandbits(64) | 1])
    return d


def carry_chain(rnd, la, lb, s, e):
    """a, b (la >= 1, lb >= 1 digits) such that a+b has a carry born at digit s that runs through
    digits s+1..e-1 and dies at digit e (e == la: runs off the end and the result grows)."""
    a = [rnd.getrandbits(64) for _ in range(la)]
    b = [rnd.getrandbits(64) for _ in range(lb)]
    # no incoming carry below s is required; make digit s overflow and s+1..e-1 saturate
    a[s] = M64
    b[s] = rnd.choice([1, M64, rnd.getrandbits(64) | 1])
    for i in range(s + 1, min(e, la)):
        a[i] = M64
    if e < la:
        a[e] = rnd.getrandbits(62)
        if e < lb:
            b[e] = rnd.getrandbits(62)
    return from_digits(nz_top(rnd, a)), from_digits(nz_top(rnd, b))


def borrow_chain(rnd, la, lb, s, e):
    """a >= b intended: borrow born at digit s, runs through s+1..e-1, dies at e (< la)."""
    a = [rnd.getrandbits(64) for _ in range(la)]
    b = [rnd.getrandbits(64) for _ in range(lb)]
    a[s] = 0
    b[s] = rnd.choice([1, M64, rnd.getrandbits(64) | 1])
    for i in range(s + 1, min(e, la)):
        a[i] = 0
    if e < la:
        a[e] = rnd.getrandbits(64) | (1 << 63)
        if e < lb:
            b[e] = rnd.getrandbits(62)
    if la == lb and la > 0:
        a[-1] |= 1 << 63
        b[-1] &= (1 << 63) - 1
    return from_digits(nz_top(rnd, a)), from_digits(nz_top(rnd, b))


def cell_pairs(rnd, la, lb, dense):
    """yield (family, a, b) for one (la, lb) cell"""
    ra = rand_digits(rnd, la, 0)
    rb = rand_digits(rnd, lb, 0)
    yield 'random', ra, rb
    ones_a = (1 << (64 * la)) - 1
    ones_b = (1 << (64 * lb)) - 1
    yield 'allones', ones_a, ones_b
    if lb >= 1:
        yield 'ones+1', ones_a, 1 | (rb & ~M64 if dense else 0)
        yield 'ones+lowones', ones_a, ones_b >> (64 * (lb - 1)) if lb else 0
    if la >= 1 and la >= lb:
        # complement within length: a + b = all ones (every digit sum MAX, no carry) ; +1 later
        comp = ones_a ^ ra
        yield 'complement', ra, comp
        yield 'equal', ra, ra
        yield 'a_plus1', ra, ra + 1
        if ra > 0:
            yield 'a_minus1', ra, ra - 1
        yield 'difflow', ra, ra ^ 1
        yield 'diffhigh', ra, ra ^ (1 << (64 * la - 2))
        # power of two minus small: result shrinks by many digits
        yield 'shrink', 1 << (64 * (la - 1)), rnd.choice([1, 2, M64]) if la > 1 else 1
        yield 'shrink2', (1 << (64 * (la - 1))) + 5, ((1 << (64 * (la - 1))) + 4) if lb == la else rb % ((1 << (64 * (la - 1))) + 5) if lb else 0
    if la >= 1 and lb >= 1:
        ss = sorted({0, 4, 5, lb - 1, (lb - 1) // 5 * 5})
        for s in ss:
            if not (0 <= s < lb and s < la):
                continue
            es = sorted({s + 1, 5, 10, lb, lb + 1, la - 1, la})
            if not dense:
                es = sorted({s + 1, lb, la})
            for e in es:
                if s < e <= la:
                    a, b = carry_chain(rnd, la, lb, s, e)
                    yield 'carry(%s,%s)' % ('s0' if s == 0 else 'sk', 'top' if e == la else 'tail' if e >= lb else 'mid'), a, b
                if s < e < la:
                    a, b = borrow_chain(rnd, la, lb, s, e)
                    yield 'borrow(%s,%s)' % ('s0' if s == 0 else 'sk', 'tail' if e >= lb else 'mid'), a, b
    # zero runs inside
    if la >= 3:
        z = ra & ~(((1 << (64 * (la - 2))) - 1) << 64)
        yield 'zerorun', z, rb
    # sparse / alternating
    yield 'alt', rand_digits(rnd, la, 7), rand_digits(rnd, lb, 4)


def lens_for(tier):
    if tier == 'quick':
        return list(range(0, 28))
    ls = list(range(0, 67))
    for k in range(70, 132, 5):
        ls += [k - 1, k, k + 1]
    ls += [131]
    return sorted(set(ls))


def workload(tier, seed, scale=1.0):
    rnd = rng_for(seed, 'C01', tier)
    cmds = []
    lens = lens_for(tier)
    dense_cut = 27 if tier == 'quick' else 40
    for la in lens:
        for lb in lens:
            dense = la <= dense_cut and lb <= dense_cut
            if scale < 1.0 and rnd.random() > scale:
                continue
            for fam, a, b in cell_pairs(rnd, la, lb, dense):
                cell_a, cell_b = ndig(a), ndig(b)
                for op in ('add', 'sub'):
                    cmds.append(cmd_bb('C01', op, a, b, 'U', cell=(op, 'U', cell_a, cell_b, fam), nontrivial=asm_ran))
                    if op == 'sub' and a != b:
                        # the other order too: one of the two must panic for BigUint
                        cmds.append(cmd_bb('C01', op, b, a, 'U', cell=(op, 'U', cell_b, cell_a, fam), nontrivial=asm_ran))
                # BigInt: all four sign combinations on a subset of families
                if fam in ('random', 'allones', 'equal', 'a_plus1', 'complement', 'shrink') or fam.startswith('carry') or fam.startswith('borrow'):
                    for sa in (1, -1):
                        for sb in (1, -1):
                            if not dense and rnd.random() < 0.5:
                                continue
                            op = rnd.choice(('add', 'sub')) if fam.startswith(('carry', 'borrow')) else None
                            for o in (('add', 'sub') if op is None else (op,)):
                                cmds.append(cmd_bb('C01', o, sa * a, sb * b, 'I', cell=(o, 'I', sa * cell_a, sb * cell_b, fam), nontrivial=asm_ran))
    # special-value pool: every ordered pair, both kinds, all sign combinations
    from ..core import special_values
    pool = special_values()
    for a in pool:
        for b in (pool if tier != 'quick' else pool[::3] + [a, a + 1, max(a - 1, 0)]):
            if scale < 1.0 and rnd.random() > scale:
                continue
            for op in ('add', 'sub'):
                cmds.append(cmd_bb('C01', op, a, b, 'U', cell=(op, 'U', 'pool', a.bit_length() // 32, b.bit_length() // 32)))
                sa, sb = rnd.choice((1, -1)), rnd.choice((1, -1))
                cmds.append(cmd_bb('C01', op, sa * a, sb * b, 'I', cell=(op, 'I', 'pool', sa, sb, a.bit_length() // 32, b.bit_length() // 32)))
    # zero operands with BigInt
    for v in (0, 1, -1, M64, -(1 << 64)):
        for w in (0, 5, -5, (1 << 320) - 1):
            for op in ('add', 'sub'):
                cmds.append(cmd_bb('C01', op, v, w, 'I', cell=(op, 'I', 'zero', ndig(w), 'edge')))
                cmds.append(cmd_bb('C01', op, w, v, 'I', cell=(op, 'I', ndig(w), 'zero', 'edge')))
    # scalar forms of + and - (u32/u64/u128 leaf impls, promoted narrow types, signed scalars on BigInt),
    # big operands shorter / equal / longer than the scalar
    from ..arith import cmd_sf, UTYPES, ITYPES, STYPES, scalar_extremes
    for ty in UTYPES + ITYPES:
        ext = scalar_extremes(ty)
        for sv in (ext if tier != 'quick' else [x for x in ext if x in (0, 1, -1, STYPES[ty][0], STYPES[ty][1], STYPES[ty][1] - 1)] + rnd.sample(ext, 4)):
            for n in (0, 1, 2, 3, 4, 5, 6, 11):
                if scale < 1.0 and rnd.random() > scale:
                    continue
                for fam, a in (('random', rand_digits(rnd, n, 0)), ('allones', (1 << (64 * n)) - 1), ('lowzero', rand_digits(rnd, n, 0) >> 64 << 64)):
                    for op in ('add', 'sub'):
                        if ty in UTYPES:
                            cmds.append(cmd_sf('C01', op, ty, a, sv, 'U', cell=('sf', op, ty, 'U', n, fam, sv.bit_length())))
                        sa = rnd.choice((1, -1))
                        cmds.append(cmd_sf('C01', op, ty, sa * a, sv, 'I', cell=('sf', op, ty, 'I', sa * n, fam, sv.bit_length(), sv < 0)))
    # Integer::inc / Integer::dec are an addition / subtraction of one reached only through the trait (0.dec() on a BigUint
    # must panic like 0 - 1)
    from ..oracles import cmd_par
    for k in (0, 1, 2, 3, 5):
        for v in sorted({0, 1, 2, (1 << (64 * k)), (1 << (64 * k)) - 1, (1 << (64 * k)) + 1, rand_digits(rnd, k, 0)}):
            cmds.append(cmd_par(v, 'U', cell=('incdec', 'U', k, v == 0, v & (v + 1) == 0), prop='C01'))
            for sg in (1, -1):
                cmds.append(cmd_par(sg * v, 'I', cell=('incdec', 'I', sg * k, v == 0, v & (v + 1) == 0), prop='C01'))
    # seeded random fill
    nrand = int((3000 if tier == 'quick' else 20000) * scale)
    maxd = 200 if tier == 'quick' else 2000
    for _ in range(nrand):
        la = int(maxd ** rnd.random())
        lb = int(maxd ** rnd.random()) if rnd.random() < 0.7 else la
        a = rand_digits(rnd, la)
        b = rand_digits(rnd, lb)
        if rnd.random() < 0.2:
            b = a + rnd.choice([-1, 1, 0]) if a > 0 else b
        kind = rnd.choice('UI')
        op = rnd.choice(('add', 'sub'))
        if kind == 'I':
            a *= rnd.choice((1, -1))
            b *= rnd.choice((1, -1))
        cmds.append(cmd_bb('C01', op, a, b, kind, cell=(op, kind, min(ndig(a), 70), min(ndig(b), 70), 'rand'), nontrivial=asm_ran))
    return cmds


def stages(tier, seed):
    cmds = workload(tier, seed)
    groups = [[c] for c in cmds]
    st = [
        dict(label='rel', variant='rel', groups=groups, floors=FLOORS),
        dict(label='dbg', variant='dbg', groups=groups, floors=FLOORS),
    ]
    if tier != 'quick':
        # other carry implementations: 32-bit digits with the _addcarry_u32 intrinsic (i686) and the portable
        # overflowing_add fallback (aarch64), interpreted by Miri
        from ..cross import portable
        rnd = rng_for(seed, 'C01x', tier)
        small = [c for c in portable(cmds) if len(c.line) < 1500]
        sub = rnd.sample(small, min(len(small), 1500))
        st.append(dict(label='miri-i686', variant='miri-i686', tool='miri:i686', groups=[[c] for c in sub], shard_min=8, timeout=2400))
        st.append(dict(label='miri-aarch64', variant='miri-aarch64', tool='miri:aarch64', groups=[[c] for c in sub], shard_min=8, timeout=2400))
    return st
