"""C07 - bitwise logic, shifts and bit queries follow infinite two's-complement semantics."""
from ..core import rng_for, rand_digits, M64, ndig
from ..arith import cmd_bb, STYPES, UTYPES, ITYPES
from ..oracles import cmd_sh, cmd_bit, cmd_setbit, cmd_bitq, cmd_not, trailing_zeros

THOROUGH_SEEDS = 20   # the thorough tier repeats its staged workload over this many derived seeds
RULE = ('& | ^ over the nine sign combinations x digit-length pairs x magnitude families that make the twos-complement '
        'negate-carries run through whole digits (+-2^(64k), 2^(64k)-1, trailing zero/one runs, results needing an extra '
        'top digit), all big-by-big forms; ! on every family; << and >> by every amount 0..130, k*64-1/k*64/k*64+1, '
        'beyond the length, through all 12 shift types incl. each type MAX and negative amounts, and for negative '
        'values amounts tz-1, tz, tz+1; bit / set_bit at indices around the lowest set bit, digit boundaries and beyond '
        'the top digit, set and clear, on + / 0 / - values; bits, trailing_zeros, trailing_ones, count_ones. '
        'A cell is (op, signs, len a, len b, family) or (shift dir, type, amount class, sign, tz relation) or '
        '(bit op, sign, index relation); all cells are non-trivial')
ASSUMPTIONS = ["CPython ints are infinite two's complement: & | ^ ~ >> << are the reference"]


def mags(rnd, n):
    """(family, magnitude) of n digits"""
    if n == 0:
        return [('zero', 0)]
    B = 1 << (64 * n)
    out = [('random', rand_digits(rnd, n, 0)), ('pow', 1 << (64 * (n - 1))), ('pow-1', B - 1), ('pow+1', (1 << (64 * (n - 1))) + 1),
           ('toppow', 1 << (64 * n - 1)), ('tzrun', rand_digits(rnd, n, 0) >> (64 * (n - 1)) << (64 * (n - 1))),
           ('t1run', (rand_digits(rnd, n, 0) | (B >> 64) - 1) if n > 1 else rnd.getrandbits(64) | 0xff), ('alt', rand_digits(rnd, n, 7) or 1),
           ('lowbit', (rand_digits(rnd, n, 0) >> 1 << 1) | 0) or 2]
    return [(f, v) for f, v in out if v > 0 and ndig(v) == n]


def workload(tier, seed, scale=1.0):
    rnd = rng_for(seed, 'C07', tier)
    quick = tier == 'quick'
    cmds = []
    L = 6 if quick else 20
    lens = list(range(0, L + 1))
    for la in lens:
        for lb in lens:
            if not quick and la > 8 and lb > 8 and (la + lb) % 3:
                continue
            fa = mags(rnd, la)
            fb = mags(rnd, lb)
            pairs = [(x, y) for x in fa for y in fb]
            if len(pairs) > (12 if quick else 10):
                pairs = rnd.sample(pairs, 12 if quick else 10)
            for (fam_a, ma), (fam_b, mb) in pairs:
                if scale < 1.0 and rnd.random() > scale:
                    continue
                for op in ('and', 'or', 'xor'):
                    cmds.append(cmd_bb('C07', op, ma, mb, 'U', cell=(op, 'U', la, lb, fam_a, fam_b)))
                    for sa in (1, -1):
                        for sb in (1, -1):
                            cmds.append(cmd_bb('C07', op, sa * ma, sb * mb, 'I', cell=(op, 'I', sa, sb, la, lb, fam_a, fam_b)))
    # special-value pool pairs
    from ..core import special_values
    pool = special_values()
    for a in pool:
        for b in (pool if not quick else pool[::5] + [a, a + 1]):
            if scale < 1.0 and rnd.random() > scale:
                continue
            op = rnd.choice(('and', 'or', 'xor'))
            sa, sb = rnd.choice((1, -1)), rnd.choice((1, -1))
            cmds.append(cmd_bb('C07', op, sa * a, sb * b, 'I', cell=(op, 'I', 'pool', sa, sb, a.bit_length() // 32, b.bit_length() // 32)))
    for a in pool:
        for s in (1, -1):
            cmds.append(cmd_not(s * a, cell=('not', 'pool', s, a.bit_length() // 32)))
            cmds.append(cmd_bitq(s * a, 'I', cell=('bitq', 'pool', s, a.bit_length() // 32)))
            for k in sorted({0, 31, 63, 64, max(a.bit_length() - 1, 0), a.bit_length(), a.bit_length() + 1}):
                for v in (True, False):
                    cmds.append(cmd_setbit(s * a, k, v, 'I', cell=('setbit', 'pool', s, v, a.bit_length() // 32, k % 64)))
    # not
    for n in range(0, L + 1):
        for fam, m in mags(rnd, n):
            for s in (1, -1):
                cmds.append(cmd_not(s * m, cell=('not', s, n, fam)))
    # shifts
    vals = []
    for n in (0, 1, 2, 3, 5):
        for fam, m in mags(rnd, n)[:5]:
            vals.append((fam, n, m))
    amounts = sorted(set(list(range(0, 131)) + [k * 64 + d for k in range(1, 8) for d in (-1, 0, 1)] + [1000, 4096, 65535]))
    for fam, n, m in vals:
        for a, kind in ((m, 'U'), (m, 'I'), (-m, 'I')):
            tz = trailing_zeros(abs(a)) if a else 0
            am = amounts if (not quick or fam in ('random', 'zero')) else amounts[::5] + [tz - 1, tz, tz + 1, 64 * n, 64 * n - 1, 64 * n + 1]
            for which in ('shl', 'shr'):
                for s in sorted(set(x for x in am if x >= 0)):
                    ty = rnd.choice([t for t in UTYPES + ITYPES if STYPES[t][1] >= s])
                    cls = 'tz-1' if s == tz - 1 else 'tz' if s == tz else 'tz+1' if s == tz + 1 else ('>=len' if s >= 64 * n else s % 64)
                    cmds.append(cmd_sh('C07', which, ty, a, s, kind, cell=(which, kind, a < 0, ty, cls, n)))
    # every shift type: 0, 1, type MAX (>> always; << only on zero), negative amounts
    for ty in UTYPES + ITYPES:
        lo, hi = STYPES[ty]
        for fam, n, m in vals[::3] + [('zero', 0, 0)]:
            for a, kind in ((m, 'U'), (m, 'I'), (-m, 'I')):
                for s in (0, 1, 63, 64, 65, hi, hi - 1, hi // 2 + 1):
                    if s < 0 or s > hi:
                        continue
                    cmds.append(cmd_sh('C07', 'shr', ty, a, s, kind, cell=('shr', kind, a < 0, ty, 'edge', s.bit_length())))
                    if a == 0 or s <= 130:
                        cmds.append(cmd_sh('C07', 'shl', ty, a, s, kind, cell=('shl', kind, a < 0, ty, 'edge', s.bit_length())))
                if lo < 0:
                    for s in (-1, lo, -64):
                        if s >= lo:
                            cmds.append(cmd_sh('C07', 'shr', ty, a, s, kind, cell=('shr', kind, ty, 'negative')))
                            cmds.append(cmd_sh('C07', 'shl', ty, a, s, kind, cell=('shl', kind, ty, 'negative')))
    # bit / set_bit / bit queries
    for n in range(0, (5 if quick else 9)):
        for fam, m in mags(rnd, n):
            for a, kind in ((m, 'U'), (m, 'I'), (-m, 'I')):
                if a == 0 and kind == 'I' and (fam, n) != ('zero', 0):
                    continue
                cmds.append(cmd_bitq(a, kind, cell=('bitq', kind, a < 0, n, fam)))
                tz = trailing_zeros(abs(a)) if a else 0
                top = abs(a).bit_length()
                idx = {0, 1, 63, 64, 65, tz - 1, tz, tz + 1, tz + 64, top - 1, top, top + 1, 64 * n - 1, 64 * n, 64 * n + 1, 64 * n + 63, 64 * (n + 2) + 5,
                       (tz // 64) * 64, (tz // 64) * 64 + 63, rnd.randrange(0, 64 * n + 70)}
                # read-only queries far beyond the value (an index that does not fit u32 / whose low 32 bits are small)
                for k in ((1 << 32), (1 << 32) + 1, (1 << 32) + 63, (1 << 33) + 5, (1 << 40) + tz, (1 << 63), (1 << 64) - 1, (1 << 32) + top - 1):
                    cmds.append(cmd_bit(a, k, kind, cell=('bit', kind, a < 0, 'huge-index', k.bit_length())))
                for k in sorted(i for i in idx if i >= 0):
                    rel = 'lt_tz' if k < tz else 'eq_tz' if k == tz else ('beyond' if k >= 64 * n else 'gt_tz')
                    cmds.append(cmd_bit(a, k, kind, cell=('bit', kind, a < 0, rel, k % 64 in (0, 63))))
                    for v in (True, False):
                        cmds.append(cmd_setbit(a, k, v, kind, cell=('setbit', kind, (a > 0) - (a < 0), rel, v, k % 64 in (0, 63), n)))
    # seeded random
    for _ in range(int((2000 if quick else 30000) * scale)):
        la, lb = rnd.randrange(0, 30), rnd.randrange(0, 30)
        a = rand_digits(rnd, la) * rnd.choice((1, -1))
        b = rand_digits(rnd, lb) * rnd.choice((1, -1))
        cmds.append(cmd_bb('C07', rnd.choice(('and', 'or', 'xor')), a, b, 'I', cell=('rand', a < 0, b < 0, min(la, 8), min(lb, 8))))
    return cmds


def stages(tier, seed):
    cmds = workload(tier, seed)
    groups = [[c] for c in cmds]
    return [dict(label='rel', variant='rel', groups=groups), dict(label='dbg', variant='dbg', groups=groups)]
