"""C19 - sign, negation and identity helpers agree with the integer value."""
from ..core import rng_for, rand_digits, M64, ndig
from ..oracles import cmd_signs, cmd_usigns, cmd_abssub, cmd_frombu, cmd_ident, cmd_signops

THOROUGH_SEEDS = 40   # the thorough tier repeats its staged workload over this many derived seeds
RULE = ('values 0, +-1, single- and multi-digit, values built with redundant high zero words; every (Sign, magnitude) pair incl. '
        'inconsistent ones (NoSign with non-zero magnitude, Plus/Minus with zero, zero with redundant words); abs_sub over the '
        'six sign/order cases, equality and zero; Sign negation and multiplication tables exhaustively (3 and 9 cases); zero() '
        'ZERO default() one() is_zero is_one set_zero set_one. A cell is (api, sign(s), order relation, length class)')
ASSUMPTIONS = ['CPython int sign/abs/max are the reference']


def workload(tier, seed, scale=1.0):
    rnd = rng_for(seed, 'C19', tier)
    quick = tier == 'quick'
    cmds = [cmd_ident(), cmd_signops()]
    mags = [0, 1, 2, M64, 1 << 64, (1 << 64) + 1, (1 << 128) - 1, 1 << 63, 1 << 127] + [rand_digits(rnd, n, k) for n in (1, 2, 3, 5, 8, 20, 40) for k in ((0,) if quick else (0, 1, 2, 4))]
    from ..core import special_values
    mags += [v for v in special_values() if v not in mags][::(3 if quick else 1)]
    for m in mags:
        for s in (1, -1):
            cmds.append(cmd_signs(s * m, cell=('signs', s if m else 0, min(ndig(m), 6))))
        cmds.append(cmd_usigns(m, cell=('usigns', min(ndig(m), 6))))
        for sg in (-1, 0, 1):
            for pad in (0, 16, 40):
                cmds.append(cmd_frombu(sg, m, pad, cell=('frombu', sg, m == 0, pad, min(ndig(m), 6))))
    # the other canonicalising constructors (new / from_slice / assign_from_slice) with every requested sign and slices that
    # are normalised, zero-padded at the top, all zero, or empty
    from ..oracles import cmd_new
    for nw in (0, 1, 2, 3, 4, 5, 9):
        for trail in (0, 1, 2, 3):
            for fam in ('rand', 'zeros', 'max', 'low'):
                ws = [{'rand': rnd.getrandbits(32), 'zeros': 0, 'max': 0xffffffff, 'low': 5 if i == 0 else 0}[fam] for i in range(nw)] + [0] * trail
                for ks in ('I+', 'I-', 'I0'):
                    cmds.append(cmd_new(ws, ks, cell=('new', ks, nw, trail, fam), prop='C19'))
    # abs_sub: sign/order cases
    vals = sorted(set([0, 1, -1, 2, -2, 3, -3, 5, -5] + [s * m for m in mags for s in (1, -1)]))
    for x in vals:
        ys = vals if not quick else rnd.sample(vals, 12) + [x, -x, 0]
        for y in ys:
            rel = (x > y) - (x < y)
            cmds.append(cmd_abssub(x, y, cell=('abssub', (x > 0) - (x < 0), (y > 0) - (y < 0), rel, abs(x) > abs(y))))
    return cmds


def stages(tier, seed):
    cmds = workload(tier, seed)
    groups = [[c] for c in cmds]
    return [dict(label='rel', variant='rel', groups=groups), dict(label='dbg', variant='dbg', groups=groups)]
