"""C10 - every overloaded operator form agrees with the canonical big-by-big operation."""
from ..core import rng_for, rand_digits, M64, ndig
from ..arith import cmd_bb, cmd_sf, cmd_srem, UTYPES, ITYPES, STYPES, scalar_extremes
from ..oracles import cmd_sh, cmd_pw, cmd_pwb, cmd_sp, cmd_sps

THOROUGH_SEEDS = 30   # the thorough tier repeats its staged workload over this many derived seeds
RULE = ('every provided operator form is instantiated by macro in the driver (a missing form is a compile error): '
        '{BigUint,BigInt} x {+,-,*,/,%} x scalar types x {big op scalar (4 val/ref forms + assign), scalar op big (5 forms)}, '
        'big op big val/ref^2 + assign (val,ref) for + - * / % & | ^ with operands cloned to exact capacity and with slack '
        '(so capacity-based buffer choices take both branches), shifts x 12 amount types x val/ref + assign(val,ref), Pow x 6 '
        'primitive + BigUint exponent types x val/ref^2, scalar %= (&)BigUint x 12, checked_*, Sum/Product over owned / borrowed / '
        'scalar iterators.  Per command the driver evaluates the canonical &A op &B and every form on fresh clones inside '
        'catch_unwind and reports forms whose value or panic-ness differs; the canonical result itself is checked against the '
        'model.  Operands: scalar extremes per type x big operands of 0,1,2,3,5,6,40 digits chosen so that subtraction both '
        'succeeds and underflows and division by zero occurs.  A cell is (operator, scalar type, big kind, big length, scalar '
        'class); each cell covers 10-13 forms')
ASSUMPTIONS = ['the canonical ref-ref result is checked against CPython ints, so agreement with a wrong canonical form cannot pass']
FORMS = {'bb': 11, 'sf': 12, 'sh': 8, 'pw': 4, 'pwb': 4, 'srem': 2, 'sp': 4, 'sps': 4}


def workload(tier, seed, scale=1.0):
    rnd = rng_for(seed, 'C10', tier)
    quick = tier == 'quick'
    cmds = []
    biglens = (0, 1, 2, 3, 5, 6, 40)
    # scalar forms
    for ty in UTYPES + ITYPES:
        ext = scalar_extremes(ty)
        if quick and len(ext) > 14:
            keep = {0, 1, -1, 2, STYPES[ty][0], STYPES[ty][1], STYPES[ty][0] + 1, STYPES[ty][1] - 1}
            ext = sorted(set(x for x in ext if x in keep) | set(rnd.sample(ext, 6)))
        for sv in ext:
            for n in biglens:
                if scale < 1.0 and rnd.random() > scale:
                    continue
                # magnitudes around the scalar so that subtraction both succeeds and underflows
                choices = [rand_digits(rnd, n, 0)] if n else [0]
                if n and ndig(abs(sv)) == n:
                    choices += [abs(sv), abs(sv) + 1, max(abs(sv) - 1, 0)]
                a = rnd.choice(choices)
                for op in ('add', 'sub', 'mul', 'div', 'rem'):
                    if ty in UTYPES:
                        cmds.append(cmd_sf('C10', op, ty, a, sv, 'U', cell=('sf', op, ty, 'U', n, sv.bit_length())))
                    sa = rnd.choice((1, -1))
                    cmds.append(cmd_sf('C10', op, ty, sa * a, sv, 'I', cell=('sf', op, ty, 'I', sa * n, sv.bit_length(), sv < 0)))
    # exact multiples of the scalar: zero remainders / exact quotients through every form and scalar width
    for ty in UTYPES + ITYPES:
        lo, hi = STYPES[ty]
        for sv in sorted({1, hi, hi - 1, (hi >> 1) + 1, lo, lo + 1, 3} - {0}):
            for k in (1, 3, (1 << 64) + 1):
                a = abs(sv) * k
                for op in ('div', 'rem', 'sub', 'add'):
                    if ty in UTYPES:
                        cmds.append(cmd_sf('C10', op, ty, a, sv, 'U', cell=('sf-mult', op, ty, 'U', k.bit_length(), sv.bit_length())))
                    for sa in (1, -1):
                        cmds.append(cmd_sf('C10', op, ty, sa * a, sv, 'I', cell=('sf-mult', op, ty, 'I', sa, k.bit_length(), sv.bit_length(), sv < 0)))
    # scalar %= BigUint
    for ty in UTYPES + ITYPES:
        for sv in scalar_extremes(ty)[::2 if quick else 1]:
            for bv in (0, 1, 2, 3, 127, 128, 255, 256, 1 << 15, 1 << 31, (1 << 32) - 1, 1 << 63, 1 << 64, 1 << 127, 1 << 128, abs(sv), abs(sv) + 1,
                       max(abs(sv) - 1, 0), rand_digits(rnd, 1), rand_digits(rnd, 3)):
                cmds.append(cmd_srem('C10', ty, sv, bv, cell=('srem', ty, sv.bit_length(), sv < 0, bv.bit_length())))
    # big op big forms (capacity variants are inside the driver command)
    ops = ('add', 'sub', 'mul', 'div', 'rem', 'and', 'or', 'xor')
    lens = (0, 1, 2, 3, 5, 6, 7, 11, 40) if quick else (0, 1, 2, 3, 4, 5, 6, 7, 10, 11, 16, 33, 40, 70)
    for la in lens:
        for lb in lens:
            a = rand_digits(rnd, la, rnd.choice((0, 1, 4)))
            b = rand_digits(rnd, lb, rnd.choice((0, 1, 4)))
            for op in ops:
                if op == 'mul' and la + lb > 90:
                    continue
                cmds.append(cmd_bb('C10', op, a, b, 'U', cell=('bb', op, 'U', la, lb)))
                sa, sb = rnd.choice((1, -1)), rnd.choice((1, -1))
                cmds.append(cmd_bb('C10', op, sa * a, sb * b, 'I', cell=('bb', op, 'I', sa * la, sb * lb)))
            # same magnitude prefix: a - b with long borrow, a == b
            cmds.append(cmd_bb('C10', 'sub', a, a, 'U', cell=('bb', 'sub', 'U', la, 'eq')))
            if la and lb > la:
                # right operand longer with zero surplus-low digits: reverse-subtraction underflow detection
                lowb = a & ((1 << (64 * la)) - 1)
                for hi in (1, 1 << 64, (1 << 64) + 1, 1 << (64 * (lb - la - 1)) if lb - la > 1 else 1):
                    bb = (hi << (64 * la)) | rnd.randrange(0, lowb + 1)
                    cmds.append(cmd_bb('C10', 'sub', a, bb, 'U', cell=('bb', 'sub', 'U', la, 'longer_b', hi.bit_length())))
    # scalar - BigUint where the big operand is longer than the scalar and its low part does not borrow
    for ty in UTYPES:
        hi_t = STYPES[ty][1]
        for sv in (5, hi_t, hi_t - 3, 1 << (hi_t.bit_length() - 1)):
            for hi in (1, 1 << 64, (1 << 64) + 5, 1 << 128):
                for low in (0, 3, sv):
                    dig = max(1, ndig(hi_t))
                    a = (hi << (64 * dig)) | low
                    cmds.append(cmd_sf('C10', 'sub', ty, a, sv, 'U', cell=('sf', 'sub', ty, 'U', 'longer', hi.bit_length(), low == 0)))
    # shifts
    for ty in UTYPES + ITYPES:
        lo, hi = STYPES[ty]
        amts = sorted({0, 1, 7, 63, 64, 65, 127, 128, 129, 200} | ({hi} if hi <= 255 else set()))
        for s in amts:
            if s > hi:
                continue
            for n in (0, 1, 2, 5):
                a = rand_digits(rnd, n, 0)
                for which in ('shl', 'shr'):
                    cmds.append(cmd_sh('C10', which, ty, a, s, 'U', cell=('sh', which, ty, 'U', n, s)))
                    cmds.append(cmd_sh('C10', which, ty, -a, s, 'I', cell=('sh', which, ty, 'I', n, s)))
        if lo < 0:
            for s in (-1, lo):
                for which in ('shl', 'shr'):
                    cmds.append(cmd_sh('C10', which, ty, 5, s, 'U', cell=('sh', which, ty, 'U', 'neg')))
                    cmds.append(cmd_sh('C10', which, ty, -5, s, 'I', cell=('sh', which, ty, 'I', 'neg')))
        for s in (hi, hi - 1):
            cmds.append(cmd_sh('C10', 'shr', ty, rand_digits(rnd, 3, 0), s, 'U', cell=('sh', 'shr', ty, 'U', 'max')))
            cmds.append(cmd_sh('C10', 'shr', ty, -rand_digits(rnd, 3, 0), s, 'I', cell=('sh', 'shr', ty, 'I', 'max')))
            cmds.append(cmd_sh('C10', 'shl', ty, 0, s, 'I', cell=('sh', 'shl', ty, 'I', 'max0')))
    # by-value division forms on operands sharing whole low zero digits / with small quotients (the owning div_rem has its own code)
    from .c03 import constructed
    for fam, a, b in constructed(rng_for(seed + 11, 'C10', tier), 10 if quick else 40):
        if fam in ('shared-low-zeros', 'small-quotient', 'vanishing-remainder'):
            for op in ('div', 'rem'):
                cmds.append(cmd_bb('C10', op, a, b, 'U', cell=('bb-' + fam, op, 'U')))
                cmds.append(cmd_bb('C10', op, -a, b * rnd.choice((1, -1)), 'I', cell=('bb-' + fam, op, 'I')))
    # negative values whose trailing-zero count straddles the range of the shift-amount type (rounding of >> on negatives
    # compares the zero count with the amount: the comparison must not happen in the amount's own width)
    for ty in UTYPES + ITYPES:
        lo, hi = STYPES[ty]
        tzs = sorted({hi - 1, hi, hi + 1, hi + 2, 2 * hi + 2, 3 * hi} if hi <= 65535 else {127, 128, 129, 255, 256, 300, 65536})
        for tz in tzs:
            for odd in (1, 5, (1 << 64) + 1):
                a = odd << tz
                for s in sorted({1, 3, 64, min(hi, tz - 1), min(hi, tz), min(hi, tz + 1), hi // 2}):
                    if 0 <= s <= hi:
                        cmds.append(cmd_sh('C10', 'shr', ty, -a, s, 'I', cell=('sh', 'shr', ty, 'I', 'tz-vs-type', tz > hi, s > tz)))
                        if odd == 5:
                            cmds.append(cmd_sh('C10', 'shr', ty, a, s, 'U', cell=('sh', 'shr', ty, 'U', 'tz-vs-type', tz > hi, s > tz)))
    # pow forms
    for ty in UTYPES:
        for e in (0, 1, 2, 3, 5, 8, 13, 64, 100, 255):
            if e > STYPES[ty][1]:
                continue
            for b in (0, 1, 2, 3, (1 << 64) + 1, 1 << 130):
                if b.bit_length() * e > 200000:
                    continue
                cmds.append(cmd_pw('C10', ty, b, e, 'U', cell=('pw', ty, 'U', e, b.bit_length())))
                cmds.append(cmd_pw('C10', ty, -b, e, 'I', cell=('pw', ty, 'I', e, b.bit_length())))
    for e in (0, 1, 2, 3, 64, 1 << 64, 1 << 128):
        for b in (0, 1, -1, 2, -3):
            if abs(b) > 1 and e > 64:
                continue
            cmds.append(cmd_pwb('C10', b, e, 'I', cell=('pwb', 'I', b, e.bit_length())))
            if b >= 0:
                cmds.append(cmd_pwb('C10', b, e, 'U', cell=('pwb', 'U', b, e.bit_length())))
    # Sum / Product
    for k in (0, 1, 2, 5):
        vals = [rand_digits(rnd, rnd.randrange(0, 4)) for _ in range(k)]
        cmds.append(cmd_sp(vals, 'U', cell=('sp', 'U', k)))
        cmds.append(cmd_sp([v * rnd.choice((1, -1)) for v in vals], 'I', cell=('sp', 'I', k)))
    cmds.append(cmd_sp([0], 'U', cell=('sp', 'U', 'zero')))
    for ty in UTYPES + ITYPES:
        lo, hi = STYPES[ty]
        sv = [rnd.randrange(lo, hi + 1) for _ in range(4)] + [hi, lo]
        if ty in UTYPES:
            cmds.append(cmd_sps('U', ty, sv, cell=('sps', 'U', ty)))
        cmds.append(cmd_sps('I', ty, sv, cell=('sps', 'I', ty)))
    return cmds


def stages(tier, seed):
    cmds = workload(tier, seed)
    groups = [[c] for c in cmds]
    return [dict(label='rel', variant='rel', groups=groups), dict(label='dbg', variant='dbg', groups=groups)]


def evidence_extra():
    return {'forms_per_command': FORMS,
            'form_count_note': 'bb: 11 forms x 8 ops x 2 kinds (+checked_* for add/sub/mul/div); sf: 12 forms x 5 ops x (6 unsigned types for BigUint + 12 types for BigInt); sh: 8 forms x 2 ops x 12 types x 2 kinds; pw: 4 forms x 6 types x 2 kinds (+inherent pow(u32)); pwb: 4 x 2; srem: 2 x 12; Sum/Product: 4 each over big and 18 scalar-type instantiations'}
