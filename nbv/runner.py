"""Run command groups through a driver variant (optionally under a tool), in parallel shards,
and feed every recorded event to its oracle."""
import multiprocessing, os, resource, shutil, signal, subprocess, sys, time, traceback

from .core import OUT, Problem, Res, common_checks
from . import build

NCPU = int(os.environ.get('NBV_JOBS', '0')) or min(16, os.cpu_count() or 4)

TOOLS = {
    None: [],
    'valgrind': ['valgrind', '--tool=memcheck', '--error-exitcode=97', '--redzone-size=128', '--leak-check=no',
                 '--quiet', '--errors-for-leak-kinds=none'],
}


class StageResult:
    def __init__(self):
        self.problems = []        # Problem (with .cmd line and .variant filled in)
        self.evaluations = 0
        self.cells = set()        # distinct non-trivial cells
        self.probes = {}
        self.samples = []
        self.inconclusive = []    # reasons
        self.wall = 0.0
        self.events = 0
        self.tool_reports = 0
        self.raw = []             # (cmd.uid, result line without probe tokens) when keep_raw

    def merge(self, o):
        self.problems += o.problems
        self.evaluations += o.evaluations
        self.cells |= o.cells
        for k, v in o.probes.items():
            self.probes[k] = self.probes.get(k, 0) + v
        if len(self.samples) < 6:
            self.samples += o.samples[:6 - len(self.samples)]
        self.inconclusive += o.inconclusive
        self.events += o.events
        self.tool_reports += o.tool_reports
        self.raw += o.raw


_G = {}


def _parse_output(path, n, probe_names_box):
    """returns (results: dict idx->toks, begun: last BEGIN idx without result or None, ended: bool)"""
    results = {}
    last_begin = None
    ended = False
    with open(path, 'r', errors='replace') as f:
        for line in f:
            line = line.rstrip('\n')
            if not line:
                continue
            c = line[0]
            if c == 'R' and line.startswith('R '):
                parts = line.split(' ')
                try:
                    idx = int(parts[1])
                except (ValueError, IndexError):
                    continue
                results[idx] = parts[2:]
                if last_begin == idx:
                    last_begin = None
            elif c == 'B' and line.startswith('B '):
                try:
                    last_begin = int(line[2:])
                except ValueError:
                    pass
            elif line.startswith('# probes '):
                probe_names_box[0] = line[9:].split(',')
            elif line.startswith('END '):
                ended = True
    return results, last_begin, ended


def _run_shard(k):
    g = _G
    cmds = g['shards'][k]
    sr = StageResult()
    if not cmds:
        return sr
    t0 = time.time()
    tmp = g['tmp']
    script = os.path.join(tmp, 'shard%d.txt' % k)
    with open(script, 'w') as f:
        for c in cmds:
            f.write(c.line + '\n')
    n = len(cmds)
    results = {}
    crashes = {}
    crash_run = {}
    probe_box = [None]
    start = 0
    restarts = 0
    tool = g['tool']
    env = dict(os.environ)
    env.update(g['env'])
    while start < n:
        outp = os.path.join(tmp, 'shard%d.out.%d' % (k, restarts))
        errp = os.path.join(tmp, 'shard%d.err.%d' % (k, restarts))
        if tool and tool.startswith('miri:'):
            argv = build.miri_argv(tool[5:]) + [script, str(start)]
            env.update(build.miri_env(tool[5:]))
        else:
            argv = TOOLS[tool] + g['prefix'] + [g['binary'], script, str(start)]
        mem = g.get('mem')

        def limits():
            if mem:
                resource.setrlimit(resource.RLIMIT_AS, (mem, mem))
            resource.setrlimit(resource.RLIMIT_CORE, (0, 0))

        try:
            with open(outp, 'w') as fo, open(errp, 'w') as fe:
                p = subprocess.run(argv, stdout=fo, stderr=fe, env=env, timeout=g['timeout'], preexec_fn=limits)
            rc = p.returncode
        except subprocess.TimeoutExpired:
            rc = 'timeout'
        r, begun, ended = _parse_output(outp, n, probe_box)
        results.update(r)
        if rc == 'timeout':
            sr.inconclusive.append('watchdog: shard %d exceeded %ds (at command %s: %s)' % (
                k, g['timeout'], begun, cmds[begun].line[:120] if begun is not None and begun < n else '?'))
            break
        if ended and rc == 0:
            break
        if tool == 'valgrind' and rc == 97 and ended:
            # memcheck reported errors; the run itself completed
            sr.tool_reports += 1
            try:
                txt = open(errp).read()
            except OSError:
                txt = ''
            pr = Problem({'C15'}, 'valgrind memcheck reported invalid memory use', txt[:1500])
            pr.cmd = '(shard %d of stage; see stderr excerpt)' % k
            pr.variant = g['variant'] + '+valgrind'
            sr.problems.append(pr)
            break
        if begun is not None and begun not in results:
            # the process died inside command `begun`
            crashes[begun] = rc
            crash_run[begun] = restarts
            start = begun + 1
            restarts += 1
            if restarts > 40:
                sr.inconclusive.append('shard %d: more than 40 process deaths' % k)
                break
            continue
        # died outside any command or tool failure
        try:
            etxt = open(errp).read()[-600:]
        except OSError:
            etxt = ''
        sr.inconclusive.append('shard %d: driver exited rc=%s without finishing (%s)' % (k, rc, etxt.strip()[-300:]))
        break
    names = probe_box[0]
    for i, c in enumerate(cmds):
        if i in crashes:
            rc = crashes[i]
            sig = -rc if isinstance(rc, int) and rc < 0 else rc
            try:
                signame = signal.Signals(sig).name if isinstance(sig, int) and sig > 0 else str(rc)
            except ValueError:
                signame = str(rc)
            props = {'C14', 'C15'}
            if c.prop:
                props.add(c.prop)
            detail = ''
            what = 'the process was killed while executing the call (%s)' % signame
            if signame == 'SIGVTALRM':
                what = 'the call did not return within its CPU-time budget (bounded-progress restatement of termination)'
                props = {'C14'} | ({c.prop} if c.prop else set())
            if tool and tool.startswith('miri:'):
                try:
                    etxt = open(os.path.join(tmp, 'shard%d.err.%d' % (k, crash_run[i]))).read()
                except (OSError, KeyError):
                    etxt = ''
                if 'Undefined Behavior' in etxt or 'error:' in etxt:
                    what = 'Miri reported an error while executing the call'
                    ix = etxt.find('error')
                    detail = etxt[ix:ix + 700]
            pr = Problem(props, what, detail)
            pr.cmd = c.line
            pr.variant = g['variant'] + ('+' + tool if tool else '')
            sr.problems.append(pr)
            sr.evaluations += 1
            continue
        toks = results.get(i)
        if toks is None:
            continue
        sr.events += 1
        if g.get('keep_raw'):
            sr.raw.append((c.uid, ' '.join(t for t in toks if not t.startswith('@'))))
        try:
            res = Res(toks, names)
            probs = list(c.check(res)) + common_checks(res)
        except Exception as e:  # oracle bug: never a violation
            sr.inconclusive.append('oracle error on %r: %s' % (c.line[:100], traceback.format_exc()[-500:]))
            continue
        sr.evaluations += 1
        for name, cnt in res.probes.items():
            sr.probes[name] = sr.probes.get(name, 0) + cnt
        nt = c.nontrivial
        if callable(nt):
            try:
                nt = nt(res)
            except Exception:
                nt = False
        if nt and c.cell is not None:
            sr.cells.add(c.cell)
        if len(sr.samples) < 3 and (i % max(1, n // 3) == 0):
            sr.samples.append({'cmd': c.line[:300], 'result': res.rawline[:300]})
        for pr in probs:
            pr.cmd = c.line
            pr.variant = g['variant'] + ('+' + tool if tool else '')
            if not pr.detail:
                pr.detail = res.rawline[:400]
            sr.problems.append(pr)
    sr.wall = time.time() - t0
    return sr


def run_stage(variant, groups, tool=None, prefix=None, env=None, timeout=600, jobs=None, binary=None, mem='default', keep_raw=False, shard_min=200):
    """groups: list of lists of Cmd (each group keeps its order and shares one process).
    Returns StageResult."""
    t0 = time.time()
    jobs = jobs or NCPU
    binary = binary or build.ensure_built(variant)
    total = sum(len(g) for g in groups)
    nsh = max(1, min(jobs, (total + shard_min - 1) // shard_min))
    shards = [[] for _ in range(nsh)]
    # greedy balance by command count, keep groups whole
    sizes = [0] * nsh
    for g in sorted(groups, key=len, reverse=True):
        k = sizes.index(min(sizes))
        shards[k] += g
        sizes[k] += len(g)
    tmp = os.path.join(OUT, 'tmp', '%d-%d' % (os.getpid(), int(time.time() * 1000) % 100000000))
    os.makedirs(tmp, exist_ok=True)
    _G.clear()
    if mem == 'default':
        # address-space cap so that a runaway allocation loop becomes a process fault within seconds
        mem = None if (tool or 'guard' in variant or 'asan' in variant) else (6 << 30)
    _G.update(dict(shards=shards, tmp=tmp, tool=tool, prefix=prefix or [], binary=binary, variant=variant,
                   env=env or {}, timeout=timeout, mem=mem, keep_raw=keep_raw))
    total_sr = StageResult()
    try:
        if nsh == 1:
            total_sr.merge(_run_shard(0))
        else:
            ctx = multiprocessing.get_context('fork')
            with ctx.Pool(nsh) as pool:
                for sr in pool.imap_unordered(_run_shard, range(nsh)):
                    total_sr.merge(sr)
    finally:
        if not os.environ.get('NBV_KEEP_TMP'):
            shutil.rmtree(tmp, ignore_errors=True)
    total_sr.wall = time.time() - t0
    return total_sr
