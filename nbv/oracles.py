"""Oracles for the non-arithmetic driver commands: shifts, powers, bit queries, text, radix,
primitive/float conversions, bytes/digits/iterators, roots, gcd family, sign helpers."""
import math
from collections import deque

from .core import (PANIC, Problem, Cmd, U, I, X, S, W, chk_big, chk_eq, parse_tok, decode_named, BV, Err, ndig, M64, fmt_want)
from .arith import tok, check_forms, STYPES, tdivmod

DIG = '0123456789abcdefghijklmnopqrstuvwxyz'


# ------------------------------------------------------------------------------ shifts / pow

def cmd_sh(prop, which, ty, a, s, kind, cell=None):
    line = 'sh %s %s %s %d' % (which, ty, tok(a, kind), s)
    if s < 0:
        want = PANIC
    elif which == 'shl':
        want = a << s if a else 0
    elif s >= (1 << 40):
        want = 0 if a >= 0 else -1
    else:
        want = a >> s

    def check(res):
        label = 'sh %s %s' % (which, ty)
        out = chk_big(prop, res.val(0), want, label + ' (&a op s)', kind)
        out += check_forms(res.mism, prop, want, label, kind)
        return out

    return Cmd(line, check, cell=cell, prop=prop)


def cmd_pw(prop, ty, a, e, kind, cell=None):
    line = 'pw %s %s %d' % (ty, tok(a, kind), e)
    want = a ** e

    def check(res):
        label = 'pw %s' % ty
        out = chk_big(prop, res.val(0), want, label + ' Pow::pow(&a, e)', kind)
        out += check_forms(res.mism, prop, want, label, kind)
        if 'inh' in res.named:
            out += chk_big(prop, res.get('inh'), want, label + ' inherent pow', kind)
        return out

    return Cmd(line, check, cell=cell, prop=prop)


def cmd_pwb(prop, a, e, kind, cell=None):
    line = 'pwb %s %s' % (tok(a, kind), U(e))
    want = a ** e if (abs(a) <= 1 or e < (1 << 20)) else None
    assert want is not None

    def check(res):
        out = chk_big(prop, res.val(0), want, 'pwb Pow::pow(&a, &E)', kind)
        out += check_forms(res.mism, prop, want, 'pwb', kind)
        return out

    return Cmd(line, check, cell=cell, prop=prop)


# ------------------------------------------------------------------------------ bit queries

def cmd_bit(a, k, kind, cell=None):
    line = 'bit %s %d' % (tok(a, kind), k)
    want = bool((a >> k) & 1)
    return Cmd(line, lambda res: chk_eq('C07', res.val(0), want, 'bit'), cell=cell, prop='C07')


def cmd_setbit(a, k, v, kind, cell=None):
    line = 'setbit %s %d %d' % (tok(a, kind), k, 1 if v else 0)
    want = (a | (1 << k)) if v else (a & ~(1 << k))

    def check(res):
        out = chk_big('C07', res.val(0), want, 'set_bit', kind)
        out += chk_big('C07', res.val(1), want, 'set_bit (buffer with slack)', kind)
        return out

    return Cmd(line, check, cell=cell, prop='C07')


def trailing_zeros(x):
    return (x & -x).bit_length() - 1


def cmd_bitq(a, kind, cell=None):
    line = 'bitq %s' % tok(a, kind)
    m = abs(a)

    def check(res):
        out = chk_eq('C07', res.get('bits'), m.bit_length(), 'bits')
        out += chk_eq('C07', res.get('tz'), None if a == 0 else trailing_zeros(m), 'trailing_zeros')
        if kind == 'U':
            out += chk_eq('C07', res.get('to1'), trailing_zeros(~m), 'trailing_ones')
            out += chk_eq('C07', res.get('cnt1'), bin(m).count('1'), 'count_ones')
        return out

    return Cmd(line, check, cell=cell, prop='C07')


def cmd_not(a, cell=None):
    line = 'not %s' % I(a)

    def check(res):
        out = []
        for nm in ('r', 'v', 'vs'):
            out += chk_big('C07', res.get(nm), ~a, 'not (%s)' % nm, 'I')
        return out

    return Cmd(line, check, cell=cell, prop='C07')


# ------------------------------------------------------------------------------ text

def tostr(v, r, upper=False):
    s = ''
    x = abs(v)
    while x:
        s = DIG[x % r] + s
        x //= r
    s = s or '0'
    if upper:
        s = s.upper()
    return ('-' if v < 0 else '') + s


def chk_str(prop, got, want, what):
    """got: decoded token ('s', bytes) / PANIC; want: str or PANIC"""
    if want is PANIC:
        if got is not PANIC:
            out = [Problem({prop, 'C14'}, what + ': returned instead of panicking', 'got=%r' % (got,))]
            if isinstance(got, tuple) and got[0] == 's' and any(c >= 0x80 for c in got[1]):
                out.append(Problem({'C15'}, what + ': returned a String that is not valid UTF-8/ASCII (unchecked conversion)', 'bytes=%s' % got[1].hex()))
            return out
        return []
    if got is PANIC:
        return [Problem({prop, 'C14'}, what + ': panicked on a valid input', 'want=%r' % want)]
    if not (isinstance(got, tuple) and got[0] == 's'):
        return [Problem(prop, what + ': expected a string', 'got=%r' % (got,))]
    b = got[1]
    out = []
    if any(c >= 0x80 for c in b):
        out.append(Problem({'C15', prop}, what + ': produced non-ASCII bytes (invalid text from an unchecked conversion)', 'bytes=%s' % b.hex()))
    if b != want.encode():
        out.append(Problem(prop, what + ': wrong text', 'got=%r want=%r' % (b[:200], want[:200])))
    return out


def cmd_tostr(a, radix, kind, cell=None):
    line = 'tostr %s %d' % (tok(a, kind), radix)
    want = tostr(a, radix) if 2 <= radix <= 36 else PANIC
    return Cmd(line, lambda res: chk_str('C06', res.val(0), want, 'to_str_radix(%d)' % radix), cell=cell, prop='C06')


# format bank: id -> (conv, plus, alt, zero, fill, align, uses_width)
FMT = {
    0: ('d', 0, 0, 0, ' ', None, 0), 1: ('d', 1, 0, 0, ' ', None, 0), 2: ('x', 0, 1, 0, ' ', None, 0), 3: ('X', 0, 1, 0, ' ', None, 0),
    4: ('x', 0, 0, 0, ' ', None, 0), 5: ('X', 0, 0, 0, ' ', None, 0), 6: ('b', 0, 0, 0, ' ', None, 0), 7: ('b', 0, 1, 0, ' ', None, 0),
    8: ('o', 0, 0, 0, ' ', None, 0), 9: ('o', 0, 1, 0, ' ', None, 0), 10: ('d', 0, 0, 0, ' ', None, 1), 11: ('d', 0, 0, 0, ' ', '<', 1),
    12: ('d', 0, 0, 0, ' ', '>', 1), 13: ('d', 0, 0, 0, ' ', '^', 1), 14: ('d', 0, 0, 1, ' ', None, 1), 15: ('d', 1, 0, 1, ' ', None, 1),
    16: ('x', 0, 1, 1, ' ', None, 1), 17: ('b', 1, 1, 1, ' ', None, 1), 18: ('o', 1, 1, 0, '*', '^', 1), 19: ('d', 0, 0, 0, '*', '<', 1),
    20: ('x', 0, 0, 0, '#', '>', 1), 21: ('X', 1, 0, 0, ' ', None, 1), 22: ('d', 0, 0, 0, '0', '<', 1), 23: ('X', 0, 1, 1, ' ', None, 1),
    24: ('d', 0, 0, 0, ' ', None, 0), 25: ('x', 1, 1, 0, ' ', None, 1), 26: ('b', 0, 0, 0, '-', '^', 1), 27: ('d', 0, 0, 0, ' ', None, 1),
    28: ('d', 0, 1, 0, ' ', None, 0), 29: ('o', 1, 0, 0, '_', '>', 1), 30: ('d', 1, 0, 1, ' ', '^', 1), 31: ('o', 0, 1, 1, ' ', '<', 1),
    32: ('b', 0, 1, 0, ' ', '>', 1), 33: ('X', 1, 1, 0, ' ', None, 0), 34: ('b', 0, 1, 1, ' ', None, 1), 35: ('x', 1, 0, 0, ' ', None, 0),
    36: ('X', 0, 1, 0, '@', '^', 1), 37: ('o', 0, 0, 1, ' ', None, 1), 38: ('d', 1, 0, 0, ' ', None, 1), 39: ('x', 1, 1, 0, ' ', '<', 1),
}
PREFIX = {'d': '', 'x': '0x', 'X': '0x', 'b': '0b', 'o': '0o'}
RADIX = {'d': 10, 'x': 16, 'X': 16, 'b': 2, 'o': 8}


def pad_integral(nonneg, prefix, digits, plus, alt, zero, width, fill, align):
    sign = '' if nonneg and not plus else ('+' if nonneg else '-')
    pre = prefix if alt else ''
    body = sign + pre + digits
    if width is None or len(body) >= width:
        return body
    pad = width - len(body)
    if zero:
        return sign + pre + '0' * pad + digits
    if align == '<':
        return body + fill * pad
    if align == '^':
        return fill * (pad // 2) + body + fill * (pad - pad // 2)
    return fill * pad + body


def model_fmt(a, fid, w):
    conv, plus, alt, zero, fill, align, usew = FMT[fid]
    digits = tostr(abs(a), RADIX[conv], upper=(conv == 'X'))
    return pad_integral(a >= 0, PREFIX[conv], digits, plus, alt, zero, w if usew else None, fill, align)


def cmd_fmt(a, fid, w, kind, cell=None):
    line = 'fmt %s %d %d' % (tok(a, kind), fid, w)
    want = model_fmt(a, fid, w)
    conv = FMT[fid][0]

    def check(res):
        out = chk_str('C06', res.val(0), want, 'format spec #%d width %d' % (fid, w))
        if 'prim' in res.named and (a >= 0 or conv == 'd'):
            # the same format string applied to the u128/i128 primitive is a second, code-independent oracle
            p = res.get('prim')
            g = res.val(0)
            if p is not PANIC and g is not PANIC and p != g:
                out.append(Problem('C06', 'format spec #%d: differs from the same spec applied to the primitive integer' % fid,
                                   'big=%r prim=%r' % (g, p)))
        return out

    return Cmd(line, check, cell=cell, prop='C06')


def radix_digits_le(v, radix):
    if v == 0:
        return [0]
    d = []
    while v:
        d.append(v % radix)
        v //= radix
    return d


def cmd_toradix(a, radix, kind, cell=None):
    line = 'toradix %s %d' % (tok(a, kind), radix)
    ok = 2 <= radix <= 256
    le = bytes(radix_digits_le(abs(a), radix)) if ok else None
    sign = (a > 0) - (a < 0)

    def check(res):
        out = []
        for nm, w in (('le', le), ('be', le[::-1] if ok else None)):
            got = res.get(nm)
            if not ok:
                if got is not PANIC:
                    out.append(Problem('C14', 'to_radix_%s: radix %d outside 2..=256 did not panic' % (nm, radix), 'got=%r' % (got,)))
                continue
            if got is PANIC:
                out.append(Problem({'C06', 'C14'}, 'to_radix_%s(%d): panicked on a valid input' % (nm, radix), ''))
                continue
            if kind == 'I':
                if not (isinstance(got, list) and len(got) == 2):
                    out.append(Problem('C06', 'to_radix_%s: expected (sign, digits)' % nm, 'got=%r' % (got,)))
                    continue
                if got[0] != sign:
                    out.append(Problem('C06', 'to_radix_%s: wrong sign' % nm, 'got=%r' % (got[0],)))
                got = got[1]
            if got != w:
                out.append(Problem('C06', 'to_radix_%s(%d): wrong digits' % (nm, radix), 'got=%r want=%r' % (got[:60], w[:60])))
        return out

    return Cmd(line, check, cell=cell, prop='C06')


def parse_model(b, radix, signed):
    """bytes -> int, or None if the input is not in the accepted language (byte-wise recogniser,
    written from the documented grammar, not from Python's int())"""
    try:
        s = b.decode('utf-8')
    except UnicodeDecodeError:
        return None
    neg = False
    if signed and s.startswith('-'):
        t = s[1:]
        if t.startswith('+'):
            return None
        s = t
        neg = True
    if s.startswith('+'):
        t = s[1:]
        if not t.startswith('+'):
            s = t
    if s == '' or s.startswith('_'):
        return None
    v = 0
    for ch in s:
        if ch == '_':
            continue
        if '0' <= ch <= '9':
            d = ord(ch) - 48
        elif 'a' <= ch <= 'z':
            d = ord(ch) - 87
        elif 'A' <= ch <= 'Z':
            d = ord(ch) - 55
        else:
            return None
        if d >= radix:
            return None
        v = v * radix + d
    return -v if neg else v


def chk_parsed(prop, got, want, what, kind):
    """want: int or None (reject). got: BV / Err / None / PANIC"""
    if got is PANIC:
        return [Problem({prop, 'C14'}, what + ': panicked', 'want=%s' % fmt_want(want))]
    if want is None:
        if isinstance(got, BV):
            return [Problem(prop, what + ': accepted an input outside the documented language', 'got=%r' % (got,))]
        return []
    if isinstance(got, Err) or got is None:
        return [Problem(prop, what + ': rejected a well-formed input', 'want=%s' % fmt_want(want))]
    return chk_big(prop, got, want, what, kind)


def cmd_fromstr(b, radix, kind, cell=None):
    """b: bytes that are valid UTF-8"""
    line = 'fromstr %s %d %s' % (kind, radix, S(b))
    bad_radix = not (2 <= radix <= 36)
    want = None if bad_radix else parse_model(b, radix, kind == 'I')

    def check(res):
        out = []
        for nm in ('fsr', 'pb', 'fs', 'parse'):
            if nm not in res.named:
                continue
            got = res.get(nm)
            what = {'fsr': 'from_str_radix', 'pb': 'parse_bytes', 'fs': 'FromStr::from_str', 'parse': 'str::parse'}[nm] + '(radix %d)' % radix
            if bad_radix:
                if got is not PANIC:
                    out.append(Problem('C14', what + ': radix outside 2..=36 did not panic', 'got=%r' % (got,)))
                continue
            out += chk_parsed('C06', got, want, what, kind)
        return out

    return Cmd(line, check, cell=cell, prop='C06')


def cmd_parsebytes(b, radix, kind, cell=None):
    line = 'parsebytes %s %d %s' % (kind, radix, X(b))
    want = parse_model(b, radix, kind == 'I')
    return Cmd(line, lambda res: chk_parsed('C06', res.get('pb'), want, 'parse_bytes(radix %d)' % radix, kind), cell=cell, prop='C06')


def cmd_fromradix(digits, radix, kindsign, cell=None):
    """kindsign: 'U' | 'I+' | 'I-' | 'I0'; digits: list of ints 0..255 little-endian for `le`"""
    line = 'fromradix %s %d %s' % (kindsign, radix, X(bytes(digits)))
    ok = 2 <= radix <= 256
    kind = kindsign[0]

    def val(ds_be):
        if any(d >= radix for d in ds_be):
            return None
        v = 0
        for d in ds_be:
            v = v * radix + d
        if kindsign == 'I-':
            v = -v
        if kindsign == 'I0':
            v = 0
        return v

    want_le = val(list(reversed(digits)))
    want_be = val(list(digits))

    def check(res):
        out = []
        for nm, w in (('le', want_le), ('be', want_be)):
            got = res.get(nm)
            what = 'from_radix_%s(%d)' % (nm, radix)
            if not ok:
                if got is not PANIC:
                    out.append(Problem('C14', what + ': radix outside 2..=256 did not panic', 'got=%r' % (got,)))
                continue
            out += chk_parsed('C06', got, w, what, kind)
        return out

    return Cmd(line, check, cell=cell, prop='C06')


# ------------------------------------------------------------------------------ primitives / floats

def round_to_float(v, mant_bits, max_exp):
    """nearest representable magnitude with ties-to-even for a non-negative int, as
    (significand, exponent) with value = significand * 2**exponent, or 'inf'"""
    if v == 0:
        return (0, 0)
    n = v.bit_length()
    if n <= mant_bits:
        return (v, 0)
    shift = n - mant_bits
    top = v >> shift
    rem = v & ((1 << shift) - 1)
    half = 1 << (shift - 1)
    if rem > half or (rem == half and (top & 1)):
        top += 1
        if top == (1 << mant_bits):
            top >>= 1
            shift += 1
    if shift + mant_bits > max_exp:
        return 'inf'
    return (top, shift)


def f64_bits(v):
    neg = v < 0
    r = round_to_float(abs(v), 53, 1024)
    if r == 'inf':
        bits = 0x7ff << 52
    elif r[0] == 0:
        bits = 0
    else:
        sig, e = r
        # normalise significand to 53 bits
        sh = 53 - sig.bit_length()
        sig <<= sh
        e -= sh
        bits = ((e + 52 + 1023) << 52) | (sig & ((1 << 52) - 1))
    return bits | ((1 << 63) if neg else 0)


def f32_bits(v):
    neg = v < 0
    r = round_to_float(abs(v), 24, 128)
    if r == 'inf':
        bits = 0xff << 23
    elif r[0] == 0:
        bits = 0
    else:
        sig, e = r
        sh = 24 - sig.bit_length()
        sig <<= sh
        e -= sh
        bits = ((e + 23 + 127) << 23) | (sig & ((1 << 23) - 1))
    return bits | ((1 << 31) if neg else 0)


def cmd_tof(a, kind, cell=None):
    line = 'tof %s' % tok(a, kind)
    w32 = ('f32', f32_bits(a))
    w64 = ('f64', f64_bits(a))

    def check(res):
        out = []
        for nm, w in (('f32', w32), ('f64', w64)):
            got = res.get(nm)
            if got is PANIC:
                out.append(Problem({'C08', 'C14'}, 'to_%s: panicked' % nm, ''))
            elif got != w:
                # zero: the sign of a zero result is not observable for integers; -0.0 never arises
                out.append(Problem('C08', 'to_%s: not the nearest float (ties-to-even) / wrong overflow behaviour' % nm,
                                   'got=%s want=%s' % (got and hex(got[1]), hex(w[1]))))
        return out

    return Cmd(line, check, cell=cell, prop='C08')


PRIMS = ['i8', 'u8', 'i16', 'u16', 'i32', 'u32', 'i64', 'u64', 'i128', 'u128', 'isize', 'usize']


def cmd_toprim(a, kind, cell=None):
    line = 'toprim %s' % tok(a, kind)

    def check(res):
        out = []
        for ty in PRIMS:
            lo, hi = STYPES[ty]
            fits = lo <= a <= hi
            out += chk_eq('C08', res.get(ty), a if fits else None, 'to_%s' % ty)
            tf = res.named.get('tf_' + ty)
            if tf == 'P':
                out.append(Problem({'C08', 'C14'}, 'TryFrom<&Big> for %s panicked' % ty, ''))
            elif fits:
                if tf != 'n%d' % a:
                    out.append(Problem('C08', 'TryFrom<&Big> for %s: wrong result' % ty, 'got=%s' % tf))
            elif tf != 'E':
                out.append(Problem('C08', 'TryFrom<&Big> for %s: accepted an out-of-range value' % ty, 'got=%s' % tf))
            tv = res.named.get('tv_' + ty)
            if tv == 'P':
                out.append(Problem({'C08', 'C14'}, 'TryFrom<Big> for %s panicked' % ty, ''))
            elif fits:
                if tv != 'n%d' % a:
                    out.append(Problem('C08', 'TryFrom<Big> for %s: wrong result' % ty, 'got=%s' % tv))
            else:
                if not (tv and tv[0] == 'E' and len(tv) > 1):
                    out.append(Problem('C08', 'TryFrom<Big> for %s: out-of-range value not rejected with the original' % ty, 'got=%s' % tv))
                else:
                    out += chk_big('C08', parse_tok(tv[1:]), a, 'TryFrom<Big> for %s: error must carry the original value back' % ty, kind)
        if kind == 'I':
            tf, tv = res.named.get('tf_big'), res.named.get('tv_big')
            if tf == 'P' or tv == 'P':
                out.append(Problem({'C08', 'C14'}, 'TryFrom<(&)BigInt> for BigUint panicked', ''))
            elif a >= 0:
                out += chk_big('C08', parse_tok(tf) if tf else None, a, 'BigUint::try_from(&BigInt)', 'U')
                out += chk_big('C08', parse_tok(tv) if tv else None, a, 'BigUint::try_from(BigInt)', 'U')
            else:
                if tf != 'E':
                    out.append(Problem('C08', 'BigUint::try_from(&negative) did not fail', 'got=%s' % tf))
                if not (tv and tv[0] == 'E' and len(tv) > 1):
                    out.append(Problem('C08', 'BigUint::try_from(negative) did not fail with the original', 'got=%s' % tv))
                else:
                    out += chk_big('C08', parse_tok(tv[1:]), a, 'BigUint::try_from(BigInt): error must carry the original value back', 'I')
        return out

    return Cmd(line, check, cell=cell, prop='C08')


def cmd_fromprim(ty, s, cell=None):
    line = 'fromprim %s %d' % (ty, s)
    unsigned = ty[0] == 'u'

    def check(res):
        out = []
        if unsigned:
            out += chk_big('C08', res.get('u_from'), s, 'BigUint::from(%s)' % ty, 'U')
        else:
            t = res.named.get('u_try')
            if s >= 0:
                out += chk_big('C08', parse_tok(t) if t and t[0] == 'U' else (PANIC if t == 'P' else None), s, 'BigUint::try_from(%s)' % ty, 'U')
            elif t != 'E':
                out.append(Problem('C08', 'BigUint::try_from(negative %s) did not fail' % ty, 'got=%s' % t))
        wu = s if s >= 0 else None
        out += chk_big('C08', res.get('u_fp'), wu, 'BigUint::from_%s' % ty, 'U')
        out += chk_big('C08', res.get('u_to'), wu, '%s::to_biguint' % ty, 'U')
        out += chk_big('C08', res.get('i_from'), s, 'BigInt::from(%s)' % ty, 'I')
        out += chk_big('C08', res.get('i_fp'), s, 'BigInt::from_%s' % ty, 'I')
        out += chk_big('C08', res.get('i_to'), s, '%s::to_bigint' % ty, 'I')
        return out

    return Cmd(line, check, cell=cell, prop='C08')


def cmd_frombool(b):
    line = 'fromprim bool %d' % b

    def check(res):
        return chk_big('C08', res.get('u_from'), b, 'BigUint::from(bool)', 'U') + chk_big('C08', res.get('i_from'), b, 'BigInt::from(bool)', 'I')

    return Cmd(line, check, cell=('frombool', b), prop='C08')


def decode_float(bits, width):
    """-> 'nan' | 'inf' | exact Fraction-free (sign, mantissa, exp2) ; returns truncated int or None"""
    if width == 64:
        sign = bits >> 63
        e = (bits >> 52) & 0x7ff
        m = bits & ((1 << 52) - 1)
        emax, bias, mb = 0x7ff, 1075, 52
    else:
        sign = bits >> 31
        e = (bits >> 23) & 0xff
        m = bits & ((1 << 23) - 1)
        emax, bias, mb = 0xff, 150, 23
    if e == emax:
        return None
    if e == 0:
        sig, ex = m, 1 - bias
    else:
        sig, ex = m | (1 << mb), e - bias
    if ex >= 0:
        t = sig << ex
    else:
        t = sig >> (-ex)
    return -t if sign else t


def cmd_fromf(width, bits, cell=None):
    line = 'fromf %d %x' % (width, bits)
    t = decode_float(bits, width)
    neg_nonzero = t is not None and t < 0

    def check(res):
        out = []
        wi = t
        wu = None if (t is None or neg_nonzero) else t
        out += chk_big('C08', res.get('u_fp'), wu, 'BigUint::from_f%d' % width, 'U')
        out += chk_big('C08', res.get('u_to'), wu, 'f%d::to_biguint' % width, 'U')
        out += chk_big('C08', res.get('i_fp'), wi, 'BigInt::from_f%d' % width, 'I')
        out += chk_big('C08', res.get('i_to'), wi, 'f%d::to_bigint' % width, 'I')
        return out

    return Cmd(line, check, cell=cell, prop='C08')


# ------------------------------------------------------------------------------ bytes / digits / iterators

def mag_bytes_be(m):
    return m.to_bytes(max(1, (m.bit_length() + 7) // 8), 'big')


def signed_bytes_be(v):
    n = 1
    while True:
        try:
            return v.to_bytes(n, 'big', signed=True)
        except OverflowError:
            n += 1


def words(m, bits):
    out = []
    mask = (1 << bits) - 1
    while m:
        out.append(m & mask)
        m >>= bits
    return out


def cmd_bytes(a, kind, cell=None):
    line = 'bytes %s' % tok(a, kind)
    m = abs(a)
    be = mag_bytes_be(m)
    sign = (a > 0) - (a < 0)
    w32, w64 = words(m, 32), words(m, 64)

    def check(res):
        out = []

        def cmp(nm, want, what):
            got = res.get(nm)
            if got is PANIC:
                out.append(Problem({'C09', 'C14'}, what + ': panicked', ''))
            elif got != want:
                out.append(Problem('C09', what + ': wrong export', 'got=%r want=%r' % (got, want)))

        def cmp_ne(want_le, want_be):
            raw = res.named.get('tne')
            if raw is None:
                return
            if raw == 'P':
                out.append(Problem({'C09', 'C14'}, 'ToBytes::to_ne_bytes: panicked', ''))
                return
            got = parse_tok(raw[1:])
            want = want_le if raw[0] == 'L' else want_be
            if got != want:
                out.append(Problem('C09', 'ToBytes::to_ne_bytes: wrong export', 'got=%r want=%r' % (got, want)))

        if kind == 'U':
            cmp('le', be[::-1], 'to_bytes_le')
            cmp('be', be, 'to_bytes_be')
            cmp('tle', be[::-1], 'ToBytes::to_le_bytes')
            cmp('tbe', be, 'ToBytes::to_be_bytes')
            cmp_ne(be[::-1], be)
            cmp('w32', w32, 'to_u32_digits')
            cmp('w64', w64, 'to_u64_digits')
            cmp('i32', w32, 'iter_u32_digits().collect()')
            cmp('i64', w64, 'iter_u64_digits().collect()')
            cmp('r32', w32[::-1], 'iter_u32_digits().rev().collect()')
            cmp('r64', w64[::-1], 'iter_u64_digits().rev().collect()')
        else:
            sb = signed_bytes_be(a)
            cmp('le', [sign, be[::-1]], 'to_bytes_le')
            cmp('be', [sign, be], 'to_bytes_be')
            cmp('sle', sb[::-1], 'to_signed_bytes_le')
            cmp('sbe', sb, 'to_signed_bytes_be')
            cmp('tle', sb[::-1], 'ToBytes::to_le_bytes')
            cmp('tbe', sb, 'ToBytes::to_be_bytes')
            cmp_ne(sb[::-1], sb)
            cmp('w32', [sign, w32] if w32 else [sign, []], 'to_u32_digits')
            cmp('w64', [sign, w64] if w64 else [sign, []], 'to_u64_digits')
            cmp('i32', w32, 'iter_u32_digits().collect()')
            cmp('i64', w64, 'iter_u64_digits().collect()')
        return out

    return Cmd(line, check, cell=cell, prop='C09')


def cmd_frombytes(b, kindsign, cell=None):
    line = 'frombytes %s %s' % (kindsign, X(b))
    le = int.from_bytes(b, 'little')
    be = int.from_bytes(b, 'big')
    kind = kindsign[0]
    f = {'U': 1, 'I+': 1, 'I-': -1, 'I0': 0}[kindsign]

    def check(res):
        out = chk_big('C09', res.get('le'), f * le, 'from_bytes_le', kind)
        out += chk_big('C09', res.get('be'), f * be, 'from_bytes_be', kind)
        if kind == 'U':
            out += chk_big('C09', res.get('tle'), le, 'FromBytes::from_le_bytes', kind)
            out += chk_big('C09', res.get('tbe'), be, 'FromBytes::from_be_bytes', kind)
            if res.get('tne_is_le') not in (True, ('missing',)):
                out.append(Problem('C09', 'FromBytes::from_ne_bytes differs from the native-endian import', repr(res.get('tne_is_le'))))
        return out

    return Cmd(line, check, cell=cell, prop='C09')


def cmd_fromsbytes(b, cell=None):
    line = 'fromsbytes %s' % X(b)
    le = int.from_bytes(b, 'little', signed=True) if b else 0
    be = int.from_bytes(b, 'big', signed=True) if b else 0

    def check(res):
        out = chk_big('C09', res.get('sle'), le, 'from_signed_bytes_le', 'I')
        out += chk_big('C09', res.get('sbe'), be, 'from_signed_bytes_be', 'I')
        out += chk_big('C09', res.get('tle'), le, 'FromBytes::from_le_bytes', 'I')
        out += chk_big('C09', res.get('tbe'), be, 'FromBytes::from_be_bytes', 'I')
        if res.get('tne_is_le') not in (True, ('missing',)):
            out.append(Problem('C09', 'FromBytes::from_ne_bytes differs from the native-endian signed import', repr(res.get('tne_is_le'))))
        return out

    return Cmd(line, check, cell=cell, prop='C09')


def cmd_new(ws, kindsign, cell=None, prop='C09'):
    line = 'new %s %s' % (kindsign, W(ws))
    v = 0
    for i, w in enumerate(ws):
        v |= w << (32 * i)
    f = {'U': 1, 'I+': 1, 'I-': -1, 'I0': 0}[kindsign]
    kind = kindsign[0]

    def check(res):
        out = []
        for nm in ('new', 'slice', 'assign', 'assign_f', 'assign_c', 'assign_p', 'assign_1', 'assign_0'):
            if nm.startswith('assign_') and res.get(nm) == ('missing',):
                continue
            out += chk_big(prop, res.get(nm), f * v, nm + ' from u32 words', kind)
        return out

    return Cmd(line, check, cell=cell, prop=prop)


def cmd_iter(width, a, kind, ops, cell=None):
    """ops: list of 'n','b','t<k>','k<k>' (nth_back),'l','h' and one final consumer: 'L' last,'c' count,'F' fold,'R' rfold,
    'C' collect,'V' rev().collect,'S' sum,'E' (&mut it).for_each then len"""
    line = 'iter %d %s %s' % (width, tok(a, kind), ' '.join(ops))
    digits = words(abs(a), width)

    def check(res):
        dq = deque(digits)
        out = []
        consumed = False
        for i, o in enumerate(ops):
            if i >= len(res.pos):
                out.append(Problem('C09', 'iterator: missing result', ''))
                break
            raw = res.pos[i]
            got = parse_tok(raw)
            what = 'iter_u%d_digits step %d (%s) of %s' % (width, i, o, ' '.join(ops))
            if consumed:
                continue
            if o == 'n':
                want = dq.popleft() if dq else None
            elif o == 'b':
                want = dq.pop() if dq else None
            elif o[0] == 't':
                k = int(o[1:])
                want = None
                for _ in range(k + 1):
                    want = dq.popleft() if dq else None
                    if want is None:
                        dq.clear()
                        break
            elif o == 'l':
                want = len(dq)
            elif o == 'h':
                want = ('hint', len(dq), len(dq))
            elif o == 'L':
                want = dq[-1] if dq else None
                consumed = True
            elif o == 'c':
                want = len(dq)
                consumed = True
            elif o[0] == 'k':
                k = int(o[1:])
                want = None
                for _ in range(k + 1):
                    want = dq.pop() if dq else None
                    if want is None:
                        dq.clear()
                        break
            elif o in ('F', 'C', 'R', 'V', 'E'):
                lst = list(dq)
                if o in ('R', 'V'):
                    lst.reverse()
                if o == 'E':
                    lst.append(0)
                want = parse_tok('q' + ','.join('%x' % x for x in lst))
                consumed = True
            elif o == 'S':
                want = sum(dq)
                consumed = True
            elif o in ('M', 'm'):
                want = (max(dq) if o == 'M' else min(dq)) if dq else None
                consumed = True
            elif o in ('A', 'P', 'p', 'Y', 'Q', 'Z'):
                lst = list(dq)
                if o == 'A':
                    r = [1, 0]
                elif o == 'P':
                    pos = next((i for i, x in enumerate(lst) if x % 2 == 1), None)
                    r = [0, 0] if pos is None else [pos + 1, len(lst) - pos - 1]
                elif o == 'p':
                    pos = next((i for i in range(len(lst) - 1, -1, -1) if lst[i] % 2 == 1), None)
                    r = [0, 0] if pos is None else [pos + 1, pos]
                elif o == 'Y':
                    pos = next((i for i in range(len(lst) - 1, -1, -1) if lst[i] % 2 == 1), None)
                    r = [(1 << 64) - 1, 0, 0] if pos is None else [lst[pos], 1, pos]
                elif o == 'Q':
                    r = lst[::2]
                else:
                    r = lst[:2] + [max(len(lst) - 2, 0)]
                want = parse_tok('q' + ','.join('%x' % x for x in r))
                consumed = True
            if got is PANIC:
                out.append(Problem({'C09', 'C14'}, what + ': panicked', 'want=%r' % (want,)))
            elif got != want:
                out.append(Problem('C09', what + ': wrong result', 'got=%r want=%r' % (got, want)))
        return out

    return Cmd(line, check, cell=cell, prop='C09')


# ------------------------------------------------------------------------------ roots

def iroot(x, n):
    """floor n-th root of x >= 0 (n >= 1), never forming powers larger than about x"""
    if x < 2 or n == 1:
        return x
    bits = x.bit_length()
    if n >= bits:
        return 1
    r = 1 << -(-bits // n)
    while True:
        t = ((n - 1) * r + x // (r ** (n - 1))) // n
        if t >= r:
            return r
        r = t


def is_floor_root(r, x, n):
    """r^n <= x < (r+1)^n without materialising absurd powers"""
    if r < 0:
        return False
    if x == 0:
        return r == 0
    if r == 0:
        return False
    bits = x.bit_length()
    if n * (r.bit_length() - 1) > bits:
        return False
    if r ** n > x:
        return False
    if n * ((r + 1).bit_length() - 1) > bits:
        return True
    return (r + 1) ** n > x


def cmd_root(a, n, kind, cell=None, budget=True):
    bits = max(abs(a).bit_length(), 1)
    # Newton from above needs O(log bits + n) iterations when started at 2^ceil(bits/n)+1; the
    # library's fixpoint can also climb/saturate first.  Generous proven-style bound:
    # generous on purpose: the budget restates 'terminates' as bounded progress, it must not encode this revision's
    # convergence rate (a bisection would be just as correct); an oscillating loop exhausts any finite budget
    bud = 2000 + 64 * bits
    line = 'root %s %d%s' % (tok(a, kind), n, (' b%d' % bud) if budget else '')
    if n == 0:
        want = PANIC
    elif a < 0 and n % 2 == 0:
        want = PANIC
    else:
        want = iroot(abs(a), n)
        if a < 0:
            want = -want

    def check(res):
        if res.budget:
            return [Problem({'C11', 'C14'}, 'root: exceeded its step budget (bounded-progress restatement of termination)', 'budget=%d' % bud)]
        out = []
        names = ['nth', 'tnth'] + (['sqrt', 'tsqrt'] if n == 2 else []) + (['cbrt', 'tcbrt'] if n == 3 else [])
        for nm in names:
            got = res.get(nm)
            w = want
            if nm in ('cbrt', 'tcbrt') or nm in ('sqrt', 'tsqrt'):
                w = want
            out += chk_big('C11', got, w, 'root %s(n=%d)' % (nm, n), kind)
            if isinstance(got, BV) and want is not PANIC:
                if not is_floor_root(abs(got.v), abs(a), n) or (got.v < 0) != (a < 0 and got.v != 0):
                    out.append(Problem('C11', 'root %s: r^n <= x < (r+1)^n violated' % nm, 'r=%r' % (got,)))
        return out

    return Cmd(line, check, cell=cell, prop='C11')


# ------------------------------------------------------------------------------ gcd family

def cmd_gcd(a, b, kind, cell=None):
    bits = max(abs(a).bit_length(), abs(b).bit_length(), 1)
    line = 'gcd %s %s b%d' % (tok(a, kind), tok(b, kind), 64 * bits + 2000)
    g = math.gcd(a, b)
    l = 0 if (a == 0 or b == 0) else abs(a * b) // g
    mult = (a == 0) if b == 0 else (a % b == 0)

    def check(res):
        if res.budget:
            return [Problem({'C13', 'C14'}, 'gcd: exceeded its step budget (bounded-progress restatement of termination)', '')]
        out = chk_big('C13', res.get('gcd'), g, 'gcd', kind)
        out += chk_big('C13', res.get('lcm'), l, 'lcm', kind)
        gl = res.get('gcd_lcm')
        if gl is PANIC:
            out.append(Problem({'C13', 'C14'}, 'gcd_lcm panicked', ''))
        else:
            out += chk_big('C13', gl[0], g, 'gcd_lcm.0', kind)
            out += chk_big('C13', gl[1], l, 'gcd_lcm.1', kind)
        out += chk_eq('C13', res.get('is_multiple_of'), mult, 'is_multiple_of')
        out += chk_eq('C13', res.get('divides'), mult, 'divides')
        if kind == 'I':
            for nm in ('egcd', 'egcd_lcm'):
                e = res.get(nm)
                if e is PANIC:
                    out.append(Problem({'C13', 'C14'}, nm + ' panicked', ''))
                    continue
                out += chk_big('C13', e[0], g, nm + ' gcd', kind)
                if isinstance(e[1], BV) and isinstance(e[2], BV):
                    if a * e[1].v + b * e[2].v != g:
                        out.append(Problem('C13', nm + ': a*x + b*y != gcd(a,b)', 'x=%r y=%r' % (e[1], e[2])))
                    for z in (e[1], e[2]):
                        if not z.canon:
                            out.append(Problem('C04', nm + ': coefficient not canonical', z.raw))
                else:
                    out.append(Problem('C13', nm + ': malformed', repr(e)))
                if nm == 'egcd_lcm':
                    out += chk_big('C13', e[3], l, 'extended_gcd_lcm lcm', kind)
        return out

    return Cmd(line, check, cell=cell, prop='C13')


def cmd_mult(a, b, kind, cell=None):
    assert b != 0
    line = 'mult %s %s' % (tok(a, kind), tok(b, kind))
    ab = abs(b)
    if b > 0:
        nxt = -((-a) // ab) * ab
        prv = (a // ab) * ab
    else:
        nxt = (a // ab) * ab
        prv = -((-a) // ab) * ab

    def check(res):
        out = chk_big('C13', res.get('next'), nxt, 'next_multiple_of', kind)
        out += chk_big('C13', res.get('prev'), prv, 'prev_multiple_of', kind)
        return out

    return Cmd(line, check, cell=cell, prop='C13')


def cmd_par(a, kind, cell=None, prop='C13'):
    line = 'par %s' % tok(a, kind)

    def check(res):
        out = chk_eq(prop, res.get('even'), a % 2 == 0, 'is_even')
        out += chk_eq(prop, res.get('odd'), a % 2 == 1, 'is_odd')
        out += chk_big(prop, res.get('inc'), a + 1, 'inc', kind)
        out += chk_big(prop, res.get('dec'), PANIC if (kind == 'U' and a == 0) else a - 1, 'dec', kind)
        return out

    return Cmd(line, check, cell=cell, prop=prop)


# ------------------------------------------------------------------------------ sign helpers (C19)

def cmd_signs(a, cell=None):
    line = 'signs %s' % I(a)
    sg = (a > 0) - (a < 0)

    def check(res):
        out = []
        P = 'C19'
        out += chk_big(P, res.get('neg_v'), -a, '-x (by value)', 'I')
        out += chk_big(P, res.get('neg_r'), -a, '-&x', 'I')
        out += chk_big(P, res.get('abs'), abs(a), 'abs', 'I')
        out += chk_big(P, res.get('signum'), sg, 'signum', 'I')
        out += chk_eq(P, res.get('pos'), a > 0, 'is_positive')
        out += chk_eq(P, res.get('neg'), a < 0, 'is_negative')
        out += chk_eq(P, res.get('sign'), sg, 'sign')
        out += chk_big(P, res.get('mag'), abs(a), 'magnitude', 'U')
        parts = res.get('parts')
        if parts is PANIC:
            out.append(Problem({P, 'C14'}, 'into_parts panicked', ''))
        else:
            out += chk_eq(P, parts[0], sg, 'into_parts sign')
            out += chk_big(P, parts[1], abs(a), 'into_parts magnitude', 'U')
        out += chk_big(P, res.get('rt'), a, 'from_biguint(into_parts)', 'I')
        wu = a if a >= 0 else None
        out += chk_big(P, res.get('to_biguint'), wu, 'to_biguint', 'U')
        out += chk_big(P, res.get('t_to_biguint'), wu, 'ToBigUint::to_biguint', 'U')
        out += chk_big(P, res.get('t_to_bigint'), a, 'ToBigInt::to_bigint', 'I')
        tr = res.named.get('try_r')
        tv = res.named.get('try_v')
        if a >= 0:
            out += chk_big(P, parse_tok(tr) if tr else None, a, 'BigUint::try_from(&BigInt)', 'U')
            out += chk_big(P, parse_tok(tv) if tv else None, a, 'BigUint::try_from(BigInt)', 'U')
        else:
            if tr != 'E':
                out.append(Problem(P, 'BigUint::try_from(&negative) did not fail', 'got=%s' % tr))
            if not (tv and tv[0] == 'E' and len(tv) > 1):
                out.append(Problem(P, 'BigUint::try_from(negative) did not fail with the original', 'got=%s' % tv))
            else:
                out += chk_big(P, parse_tok(tv[1:]), a, 'BigUint::try_from(BigInt) error original', 'I')
        out += chk_eq(P, res.get('is_zero'), a == 0, 'is_zero')
        out += chk_eq(P, res.get('is_one'), a == 1, 'is_one')
        out += chk_big(P, res.get('set_zero'), 0, 'set_zero', 'I')
        out += chk_big(P, res.get('set_one'), 1, 'set_one', 'I')
        out += chk_big(P, res.get('neg_vs'), -a, '-x (stale capacity)', 'I')
        out += chk_big(P, res.get('abs_s'), abs(a), 'abs (stale capacity)', 'I')
        ps = res.get('parts_s')
        if ps is PANIC:
            out.append(Problem({P, 'C14'}, 'into_parts (stale capacity) panicked', ''))
        else:
            out += chk_eq(P, ps[0], sg, 'into_parts sign (stale capacity)')
            out += chk_big(P, ps[1], abs(a), 'into_parts magnitude (stale capacity)', 'U')
        out += chk_big(P, res.get('set_zero_s'), 0, 'set_zero (stale capacity)', 'I')
        out += chk_big(P, res.get('set_one_s'), 1, 'set_one (stale capacity)', 'I')
        out += chk_eq(P, res.get('is_zero_s'), a == 0, 'is_zero (stale capacity)')
        out += chk_eq(P, res.get('is_one_s'), a == 1, 'is_one (stale capacity)')
        return out

    return Cmd(line, check, cell=cell, prop='C19')


def cmd_usigns(a, cell=None):
    line = 'usigns %s' % U(a)

    def check(res):
        P = 'C19'
        out = chk_big(P, res.get('to_bigint'), a, 'BigUint::to_bigint', 'I')
        out += chk_big(P, res.get('t_to_biguint'), a, 'ToBigUint for BigUint', 'U')
        out += chk_big(P, res.get('from'), a, 'BigInt::from(BigUint)', 'I')
        out += chk_big(P, res.get('to_bigint_s'), a, 'BigUint::to_bigint (stale capacity)', 'I')
        out += chk_big(P, res.get('from_s'), a, 'BigInt::from(BigUint) (stale capacity)', 'I')
        out += chk_big(P, res.get('to_bigint_h'), a, 'BigUint::to_bigint (value with a history)', 'I')
        for nm, raw in res.named.items():
            if nm[:3] in ('zr_', 'zf_', 'zb_'):
                out += chk_big(P, res.get(nm), 0, {'zr_': 'to_bigint', 'zf_': 'BigInt::from', 'zb_': 'from_biguint(Plus, ..)'}[nm[:3]] + ' of a zero reached by ' + nm[3:], 'I')
        out += chk_eq(P, res.get('is_zero'), a == 0, 'is_zero')
        out += chk_eq(P, res.get('is_one'), a == 1, 'is_one')
        out += chk_big(P, res.get('set_zero'), 0, 'set_zero', 'U')
        out += chk_big(P, res.get('set_one'), 1, 'set_one', 'U')
        out += chk_big(P, res.get('set_zero_s'), 0, 'set_zero (stale capacity)', 'U')
        out += chk_big(P, res.get('set_one_s'), 1, 'set_one (stale capacity)', 'U')
        out += chk_eq(P, res.get('is_zero_s'), a == 0, 'is_zero (stale capacity)')
        out += chk_eq(P, res.get('is_one_s'), a == 1, 'is_one (stale capacity)')
        return out

    return Cmd(line, check, cell=cell, prop='C19')


def cmd_abssub(a, b, cell=None):
    line = 'abssub %s %s' % (I(a), I(b))
    return Cmd(line, lambda res: chk_big('C19', res.val(0), max(a - b, 0), 'abs_sub', 'I'), cell=cell, prop='C19')


def cmd_frombu(sign, m, pad=0, cell=None):
    line = 'frombu %d %s' % (sign, U(m, pad))
    want = sign * m

    def check(res):
        out = chk_big('C19', res.get('v'), want, 'from_biguint(%d, m)' % sign, 'I')
        parts = res.get('parts')
        if parts is PANIC:
            out.append(Problem({'C19', 'C14'}, 'from_biguint().into_parts() panicked', ''))
        else:
            out += chk_eq('C19', parts[0], (want > 0) - (want < 0), 'from_biguint().into_parts() sign')
            out += chk_big('C19', parts[1], abs(want), 'from_biguint().into_parts() magnitude', 'U')
        return out

    return Cmd(line, check, cell=cell, prop='C19')


def cmd_ident():
    def check(res):
        out = []
        for nm in ('u_zero', 'u_ZERO', 'u_CZERO', 'u_default'):
            out += chk_big('C19', res.get(nm), 0, nm, 'U')
        out += chk_big('C19', res.get('u_one'), 1, 'u_one', 'U')
        for nm in ('i_zero', 'i_ZERO', 'i_CZERO', 'i_default'):
            out += chk_big('C19', res.get(nm), 0, nm, 'I')
        out += chk_big('C19', res.get('i_one'), 1, 'i_one', 'I')
        return out

    return Cmd('ident', check, cell=('ident',), prop='C19')


def cmd_signops():
    def check(res):
        signs = [-1, 0, 1]
        want = [-s for s in signs] + [a * b for a in signs for b in signs]
        got = [parse_tok(t) for t in res.pos[:12]]
        out = []
        for i, (g, w) in enumerate(zip(got, want)):
            if g != w:
                what = ('Sign neg of %d' % signs[i]) if i < 3 else ('Sign mul %d*%d' % (signs[(i - 3) // 3], signs[(i - 3) % 3]))
                out.append(Problem('C19', what + ': wrong', 'got=%r want=%r' % (g, w)))
        return out

    return Cmd('signops', check, cell=('signops',), prop='C19')


# ------------------------------------------------------------------------------ Sum / Product

def cmd_sp(vals, kind, cell=None):
    line = ' '.join(['sp', kind] + [tok(v, kind) for v in vals])
    s = sum(vals)
    p = 1
    for v in vals:
        p *= v

    def check(res):
        out = []
        for i, (w, nm) in enumerate(((s, 'Sum over &T'), (s, 'Sum over T'), (p, 'Product over &T'), (p, 'Product over T'))):
            out += [pr for pr in chk_big('C10', res.val(i), w, nm, kind)]
        return out

    return Cmd(line, check, cell=cell, prop='C10')


def cmd_sps(kind, ty, svals, cell=None):
    line = 'sps %s %s %s' % (kind, ty, ' '.join(str(s) for s in svals))
    s = sum(svals)
    p = 1
    for v in svals:
        p *= v

    def check(res):
        out = []
        for i, (w, nm) in enumerate(((s, 'Sum over scalars'), (s, 'Sum over &scalars'), (p, 'Product over scalars'), (p, 'Product over &scalars'))):
            out += chk_big('C10', res.val(i), w, nm + ' ' + ty, kind)
        return out

    return Cmd(line, check, cell=cell, prop='C10')
