//! C17: a recording Serializer and a token-replay Deserializer.
use crate::util::*;
use num_bigint::{BigInt, BigUint};
use serde::de::{self, DeserializeSeed, SeqAccess, Visitor};
use serde::ser::{self, Impossible, SerializeSeq, SerializeTuple};
use serde::{Deserialize, Serialize};
use std::fmt;

#[derive(Debug)]
pub struct SErr(String);
impl fmt::Display for SErr {
    fn fmt(&self, f: &mut fmt::Formatter<'_>) -> fmt::Result {
        write!(f, "{}", self.0)
    }
}
impl std::error::Error for SErr {}
impl ser::Error for SErr {
    fn custom<T: fmt::Display>(msg: T) -> Self {
        SErr(msg.to_string())
    }
}
impl de::Error for SErr {
    fn custom<T: fmt::Display>(msg: T) -> Self {
        SErr(msg.to_string())
    }
}

// ------------------------------------------------------------------------------ serializer
/// Accepts exactly what the documented format needs (seq, tuple, u32, i8); anything else is an
/// error that shows up in the event log.
struct Rec<'a> {
    log: &'a mut Vec<String>,
}
struct RecSeq<'a> {
    log: &'a mut Vec<String>,
}

macro_rules! unsupported {
    ($($name:ident($($arg:ty),*) ;)*) => {$(
        fn $name(self, $(_: $arg),*) -> Result<(), SErr> {
            self.log.push(format!("UNSUPPORTED:{}", stringify!($name)));
            Err(SErr(format!("unsupported {}", stringify!($name))))
        }
    )*}
}

impl<'a> ser::Serializer for Rec<'a> {
    type Ok = ();
    type Error = SErr;
    type SerializeSeq = RecSeq<'a>;
    type SerializeTuple = RecSeq<'a>;
    type SerializeTupleStruct = Impossible<(), SErr>;
    type SerializeTupleVariant = Impossible<(), SErr>;
    type SerializeMap = Impossible<(), SErr>;
    type SerializeStruct = Impossible<(), SErr>;
    type SerializeStructVariant = Impossible<(), SErr>;

    fn serialize_u32(self, v: u32) -> Result<(), SErr> {
        self.log.push(format!("u{:x}", v));
        Ok(())
    }
    fn serialize_i8(self, v: i8) -> Result<(), SErr> {
        self.log.push(format!("i{}", v));
        Ok(())
    }
    fn serialize_seq(self, len: Option<usize>) -> Result<RecSeq<'a>, SErr> {
        self.log.push(match len {
            Some(n) => format!("seq{}", n),
            None => "seq?".into(),
        });
        Ok(RecSeq { log: self.log })
    }
    fn serialize_tuple(self, len: usize) -> Result<RecSeq<'a>, SErr> {
        self.log.push(format!("tup{}", len));
        Ok(RecSeq { log: self.log })
    }
    unsupported! {
        serialize_bool(bool); serialize_i16(i16); serialize_i32(i32); serialize_i64(i64);
        serialize_u8(u8); serialize_u16(u16); serialize_u64(u64); serialize_f32(f32);
        serialize_f64(f64); serialize_char(char); serialize_str(&str); serialize_bytes(&[u8]);
        serialize_none(); serialize_unit(); serialize_unit_struct(&'static str);
        serialize_unit_variant(&'static str, u32, &'static str);
    }
    fn serialize_i128(self, _: i128) -> Result<(), SErr> {
        self.log.push("UNSUPPORTED:i128".into());
        Err(SErr("unsupported".into()))
    }
    fn serialize_u128(self, _: u128) -> Result<(), SErr> {
        self.log.push("UNSUPPORTED:u128".into());
        Err(SErr("unsupported".into()))
    }
    fn serialize_some<T: ?Sized + Serialize>(self, _: &T) -> Result<(), SErr> {
        self.log.push("UNSUPPORTED:some".into());
        Err(SErr("unsupported".into()))
    }
    fn serialize_newtype_struct<T: ?Sized + Serialize>(self, _: &'static str, _: &T) -> Result<(), SErr> {
        self.log.push("UNSUPPORTED:newtype_struct".into());
        Err(SErr("unsupported".into()))
    }
    fn serialize_newtype_variant<T: ?Sized + Serialize>(self, _: &'static str, _: u32, _: &'static str, _: &T) -> Result<(), SErr> {
        self.log.push("UNSUPPORTED:newtype_variant".into());
        Err(SErr("unsupported".into()))
    }
    fn serialize_tuple_struct(self, _: &'static str, _: usize) -> Result<Self::SerializeTupleStruct, SErr> {
        self.log.push("UNSUPPORTED:tuple_struct".into());
        Err(SErr("unsupported".into()))
    }
    fn serialize_tuple_variant(self, _: &'static str, _: u32, _: &'static str, _: usize) -> Result<Self::SerializeTupleVariant, SErr> {
        self.log.push("UNSUPPORTED:tuple_variant".into());
        Err(SErr("unsupported".into()))
    }
    fn serialize_map(self, _: Option<usize>) -> Result<Self::SerializeMap, SErr> {
        self.log.push("UNSUPPORTED:map".into());
        Err(SErr("unsupported".into()))
    }
    fn serialize_struct(self, _: &'static str, _: usize) -> Result<Self::SerializeStruct, SErr> {
        self.log.push("UNSUPPORTED:struct".into());
        Err(SErr("unsupported".into()))
    }
    fn serialize_struct_variant(self, _: &'static str, _: u32, _: &'static str, _: usize) -> Result<Self::SerializeStructVariant, SErr> {
        self.log.push("UNSUPPORTED:struct_variant".into());
        Err(SErr("unsupported".into()))
    }
    fn collect_str<T: ?Sized + fmt::Display>(self, _: &T) -> Result<(), SErr> {
        self.log.push("UNSUPPORTED:collect_str".into());
        Err(SErr("unsupported".into()))
    }
    fn is_human_readable(&self) -> bool {
        false
    }
}
impl<'a> SerializeSeq for RecSeq<'a> {
    type Ok = ();
    type Error = SErr;
    fn serialize_element<T: ?Sized + Serialize>(&mut self, v: &T) -> Result<(), SErr> {
        v.serialize(Rec { log: self.log })
    }
    fn end(self) -> Result<(), SErr> {
        self.log.push("end".into());
        Ok(())
    }
}
impl<'a> SerializeTuple for RecSeq<'a> {
    type Ok = ();
    type Error = SErr;
    fn serialize_element<T: ?Sized + Serialize>(&mut self, v: &T) -> Result<(), SErr> {
        v.serialize(Rec { log: self.log })
    }
    fn end(self) -> Result<(), SErr> {
        self.log.push("end".into());
        Ok(())
    }
}

fn record<T: Serialize>(x: &T) -> (Vec<String>, bool) {
    let mut log = vec![];
    let ok = x.serialize(Rec { log: &mut log }).is_ok();
    (log, ok)
}

// ---------------------------------------------------------------------------- deserializer
#[derive(Clone, Debug)]
enum Tok {
    I8(i8),
    U32(u32),
    /// the same integers as a self-describing format hands them over (JSON-like: everything is i64 / u64),
    /// and the other primitive widths
    I16(i16),
    I32(i32),
    I64(i64),
    U8(u8),
    U16(u16),
    U64(u64),
    /// elements, announced size hint
    Seq(Vec<Tok>, Option<usize>),
}

struct De<'a> {
    tok: &'a Tok,
    /// when true, a tuple request on a Seq token is served (formats like JSON do this)
    _p: (),
}
struct Access<'a> {
    items: std::slice::Iter<'a, Tok>,
    hint: Option<usize>,
}
impl<'de, 'a> SeqAccess<'de> for Access<'a> {
    type Error = SErr;
    fn next_element_seed<T: DeserializeSeed<'de>>(&mut self, seed: T) -> Result<Option<T::Value>, SErr> {
        match self.items.next() {
            Some(t) => seed.deserialize(De { tok: t, _p: () }).map(Some),
            None => Ok(None),
        }
    }
    fn size_hint(&self) -> Option<usize> {
        self.hint
    }
}
impl<'de, 'a> de::Deserializer<'de> for De<'a> {
    type Error = SErr;
    fn deserialize_any<V: Visitor<'de>>(self, visitor: V) -> Result<V::Value, SErr> {
        match self.tok {
            Tok::I8(v) => visitor.visit_i8(*v),
            Tok::U32(v) => visitor.visit_u32(*v),
            Tok::I16(v) => visitor.visit_i16(*v),
            Tok::I32(v) => visitor.visit_i32(*v),
            Tok::I64(v) => visitor.visit_i64(*v),
            Tok::U8(v) => visitor.visit_u8(*v),
            Tok::U16(v) => visitor.visit_u16(*v),
            Tok::U64(v) => visitor.visit_u64(*v),
            Tok::Seq(items, hint) => visitor.visit_seq(Access { items: items.iter(), hint: *hint }),
        }
    }
    serde::forward_to_deserialize_any! {
        bool i8 i16 i32 i64 i128 u8 u16 u32 u64 u128 f32 f64 char str string bytes byte_buf option
        unit unit_struct newtype_struct seq tuple tuple_struct map struct enum identifier ignored_any
    }
    fn is_human_readable(&self) -> bool {
        false
    }
}

// ------------------------------------------------------------ strict (non-self-describing) reader
/// A bincode-like reader over the flat stream the recording Serializer produced: nothing is tagged, so the value must ASK for
/// exactly what was written - `deserialize_tuple(n)` reads n elements with no length, `deserialize_seq` reads a length first,
/// `deserialize_u32` / `deserialize_i8` read one scalar; `deserialize_any` and every other request is an error.
#[derive(Clone, Debug)]
enum Flat {
    Len(usize),
    I8(i8),
    U32(u32),
}
struct Strict<'a> {
    toks: &'a [Flat],
    pos: &'a std::cell::Cell<usize>,
}
impl<'a> Strict<'a> {
    fn next(&self) -> Result<Flat, SErr> {
        let p = self.pos.get();
        self.pos.set(p + 1);
        self.toks.get(p).cloned().ok_or_else(|| SErr("unexpected end of input".into()))
    }
}
struct StrictSeq<'a> {
    de: Strict<'a>,
    left: usize,
}
impl<'de, 'a> SeqAccess<'de> for StrictSeq<'a> {
    type Error = SErr;
    fn next_element_seed<T: DeserializeSeed<'de>>(&mut self, seed: T) -> Result<Option<T::Value>, SErr> {
        if self.left == 0 {
            return Ok(None);
        }
        self.left -= 1;
        seed.deserialize(Strict { toks: self.de.toks, pos: self.de.pos }).map(Some)
    }
    fn size_hint(&self) -> Option<usize> {
        Some(self.left)
    }
}
macro_rules! strict_reject {
    ($($name:ident)*) => {$(
        fn $name<V: Visitor<'de>>(self, _: V) -> Result<V::Value, SErr> {
            Err(SErr(format!("strict reader: unsupported request {}", stringify!($name))))
        }
    )*}
}
impl<'de, 'a> de::Deserializer<'de> for Strict<'a> {
    type Error = SErr;
    fn deserialize_i8<V: Visitor<'de>>(self, visitor: V) -> Result<V::Value, SErr> {
        match self.next()? {
            Flat::I8(v) => visitor.visit_i8(v),
            t => Err(SErr(format!("strict reader: i8 requested, stream has {:?}", t))),
        }
    }
    fn deserialize_u32<V: Visitor<'de>>(self, visitor: V) -> Result<V::Value, SErr> {
        match self.next()? {
            Flat::U32(v) => visitor.visit_u32(v),
            t => Err(SErr(format!("strict reader: u32 requested, stream has {:?}", t))),
        }
    }
    fn deserialize_seq<V: Visitor<'de>>(self, visitor: V) -> Result<V::Value, SErr> {
        match self.next()? {
            Flat::Len(n) => visitor.visit_seq(StrictSeq { de: Strict { toks: self.toks, pos: self.pos }, left: n }),
            t => Err(SErr(format!("strict reader: sequence length expected, stream has {:?}", t))),
        }
    }
    fn deserialize_tuple<V: Visitor<'de>>(self, len: usize, visitor: V) -> Result<V::Value, SErr> {
        visitor.visit_seq(StrictSeq { de: Strict { toks: self.toks, pos: self.pos }, left: len })
    }
    fn deserialize_tuple_struct<V: Visitor<'de>>(self, _: &'static str, len: usize, visitor: V) -> Result<V::Value, SErr> {
        self.deserialize_tuple(len, visitor)
    }
    fn deserialize_newtype_struct<V: Visitor<'de>>(self, _: &'static str, visitor: V) -> Result<V::Value, SErr> {
        visitor.visit_newtype_struct(self)
    }
    strict_reject! { deserialize_any deserialize_bool deserialize_i16 deserialize_i32 deserialize_i64 deserialize_u8 deserialize_u16
        deserialize_u64 deserialize_f32 deserialize_f64 deserialize_char deserialize_str deserialize_string deserialize_bytes
        deserialize_byte_buf deserialize_option deserialize_unit deserialize_map deserialize_identifier deserialize_ignored_any }
    fn deserialize_unit_struct<V: Visitor<'de>>(self, _: &'static str, _: V) -> Result<V::Value, SErr> {
        Err(SErr("strict reader: unsupported request unit_struct".into()))
    }
    fn deserialize_struct<V: Visitor<'de>>(self, _: &'static str, _: &'static [&'static str], _: V) -> Result<V::Value, SErr> {
        Err(SErr("strict reader: unsupported request struct".into()))
    }
    fn deserialize_enum<V: Visitor<'de>>(self, _: &'static str, _: &'static [&'static str], _: V) -> Result<V::Value, SErr> {
        Err(SErr("strict reader: unsupported request enum".into()))
    }
    fn is_human_readable(&self) -> bool {
        false
    }
}
/// the recorded serializer log as the flat stream a length-prefixing binary format would have written
fn flat_stream(log: &[String]) -> Option<Vec<Flat>> {
    let mut out = vec![];
    for t in log {
        if let Some(n) = t.strip_prefix("seq") {
            out.push(Flat::Len(n.parse().ok()?));
        } else if t.starts_with("tup") || t == "end" {
        } else if let Some(v) = t.strip_prefix('u') {
            out.push(Flat::U32(u32::from_str_radix(v, 16).ok()?));
        } else if let Some(v) = t.strip_prefix('i') {
            out.push(Flat::I8(v.parse().ok()?));
        } else {
            return None;
        }
    }
    Some(out)
}
/// deserialize with the strict reader; every token must be consumed
fn strict_read<'de, T: Deserialize<'de>>(log: &[String]) -> Result<T, SErr> {
    let flat = flat_stream(log).ok_or_else(|| SErr("log is not a flat stream".into()))?;
    let pos = std::cell::Cell::new(0usize);
    let v = T::deserialize(Strict { toks: &flat, pos: &pos })?;
    if pos.get() != flat.len() {
        return Err(SErr(format!("strict reader: {} of {} tokens consumed", pos.get(), flat.len())));
    }
    Ok(v)
}

fn parse_hint(s: &str, n: usize) -> Option<usize> {
    match s {
        "none" => None,
        "exact" => Some(n),
        "max" => Some(usize::MAX),
        x => Some(x.parse().unwrap()),
    }
}

/// `<type>:<value>` -> an integer token of that carrier type (plain number = i8)
fn int_tok(s: &str) -> Tok {
    match s.split_once(':') {
        None => Tok::I8(pnum(s)),
        Some(("i8", v)) => Tok::I8(pnum(v)),
        Some(("i16", v)) => Tok::I16(pnum(v)),
        Some(("i32", v)) => Tok::I32(pnum(v)),
        Some(("i64", v)) => Tok::I64(pnum(v)),
        Some(("u8", v)) => Tok::U8(pnum(v)),
        Some(("u16", v)) => Tok::U16(pnum(v)),
        Some(("u32", v)) => Tok::U32(pnum(v)),
        Some((_, v)) => Tok::U64(pnum(v)),
    }
}
/// `w<hex,..>` = u32 tokens; `W<hex,..>` = the same digits handed over as u64 tokens (values above
/// u32::MAX are possible and must be rejected)
fn word_toks(t: &str) -> Vec<Tok> {
    if t.len() <= 1 {
        return vec![];
    }
    let wide = t.starts_with('W');
    t[1..]
        .split(',')
        .map(|x| {
            let v = u64::from_str_radix(x, 16).unwrap();
            if wide {
                Tok::U64(v)
            } else {
                Tok::U32(v as u32)
            }
        })
        .collect()
}

struct DR<T>(Result<T, SErr>);
impl<T: Show> Show for DR<T> {
    fn show(&self) -> String {
        match &self.0 {
            Ok(v) => v.show(),
            Err(_) => "E".into(),
        }
    }
}

pub fn run(op: &str, t: &[&str], v: &[Val], out: &mut Out) -> bool {
    match op {
        // ser A : token log, success flag, and an in-process round trip through the tokens
        "ser" => {
            if v[1].is_u() {
                let a = v[1].u();
                match guard(|| record(a)) {
                    Some((log, ok)) => {
                        out.push(&format!("t{}", log.join(",")));
                        out.push(if ok { "T" } else { "F" });
                        // the same bytes read back by a non-self-describing (length-prefixing, untagged) format
                        out.named("rtb", || DR(strict_read::<BigUint>(&log)));
                    }
                    None => out.push("P"),
                }
                out.named("rt", || {
                    let words = a.to_u32_digits();
                    let tok = Tok::Seq(words.iter().map(|w| Tok::U32(*w)).collect(), Some(words.len()));
                    DR(BigUint::deserialize(De { tok: &tok, _p: () }))
                });
            } else {
                let a = v[1].i();
                match guard(|| record(a)) {
                    Some((log, ok)) => {
                        out.push(&format!("t{}", log.join(",")));
                        out.push(if ok { "T" } else { "F" });
                        out.named("rtb", || DR(strict_read::<BigInt>(&log)));
                    }
                    None => out.push("P"),
                }
                out.named("rt", || {
                    let (s, words) = a.to_u32_digits();
                    let seq = Tok::Seq(words.iter().map(|w| Tok::U32(*w)).collect(), Some(words.len()));
                    let tok = Tok::Seq(vec![Tok::I8(sign_i8(s)), seq], Some(2));
                    DR(BigInt::deserialize(De { tok: &tok, _p: () }))
                });
            }
        }
        // de U <hint> w<words>
        // de I <signbyte> <hint> w<words>
        "de" => {
            if t[1] == "U" {
                let w = word_toks(t[3]);
                let n = w.len();
                let tok = Tok::Seq(w, parse_hint(t[2], n));
                out.call(|| DR(BigUint::deserialize(De { tok: &tok, _p: () })));
            } else {
                let w = word_toks(t[4]);
                let n = w.len();
                let seq = Tok::Seq(w, parse_hint(t[3], n));
                let tok = Tok::Seq(vec![int_tok(t[2]), seq], Some(2));
                out.call(|| DR(BigInt::deserialize(De { tok: &tok, _p: () })));
            }
        }
        // dein U <place> <hint> w<words>          : Deserialize::deserialize_in_place over an existing value
        // dein I <place> <sign> <hint> w<words>
        "dein" => {
            if t[1] == "U" {
                let w = word_toks(t[4]);
                let n = w.len();
                let tok = Tok::Seq(w, parse_hint(t[3], n));
                let mut place = v[2].u().clone();
                out.call(|| DR(BigUint::deserialize_in_place(De { tok: &tok, _p: () }, &mut place).map(|_| place.clone())));
            } else {
                let w = word_toks(t[5]);
                let n = w.len();
                let seq = Tok::Seq(w, parse_hint(t[4], n));
                let tok = Tok::Seq(vec![int_tok(t[3]), seq], Some(2));
                let mut place = v[2].i().clone();
                out.call(|| DR(BigInt::deserialize_in_place(De { tok: &tok, _p: () }, &mut place).map(|_| place.clone())));
            }
        }
        // sersign <-1|0|1> : Sign serialised on its own
        "sersign" => {
            let s = match t[1] {
                "-1" => num_bigint::Sign::Minus,
                "0" => num_bigint::Sign::NoSign,
                _ => num_bigint::Sign::Plus,
            };
            match guard(|| record(&s)) {
                Some((log, ok)) => {
                    out.push(&format!("t{}", log.join(",")));
                    out.push(if ok { "T" } else { "F" });
                    out.named("rtb", || DR(strict_read::<num_bigint::Sign>(&log)));
                }
                None => out.push("P"),
            }
        }
        // designs <byte> : Sign deserialised on its own from an i8
        "designs" => {
            let tok = int_tok(t[1]);
            out.call(|| DR(num_bigint::Sign::deserialize(De { tok: &tok, _p: () })));
        }
        _ => return false,
    }
    true
}
