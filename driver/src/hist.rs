//! Register file and history steps (C04): values reached through sequences of in-place
//! mutations, constructors with redundant input, clone_from, ... then compared pairwise.
use crate::util::*;
use num_bigint::{BigInt, BigUint, Sign};
use num_traits::{Num, One, Zero};
use std::collections::hash_map::DefaultHasher;
use std::collections::HashMap;
use std::hash::{Hash, Hasher};

pub enum Reg {
    U(BigUint),
    I(BigInt),
}

pub struct State {
    regs: HashMap<String, Reg>,
}
impl State {
    pub fn new() -> State {
        State { regs: HashMap::new() }
    }
}

fn sign_of(tok: &str) -> Sign {
    match tok {
        "I-" => Sign::Minus,
        "I0" => Sign::NoSign,
        _ => Sign::Plus,
    }
}
fn pwords(t: &str) -> Vec<u32> {
    if t.len() <= 1 {
        return vec![];
    }
    t[1..].split(',').map(|x| u32::from_str_radix(x, 16).unwrap()).collect()
}
fn hash_of<T: Hash>(x: &T) -> u64 {
    let mut h = DefaultHasher::new();
    x.hash(&mut h);
    h.finish()
}
fn show_reg(r: &Reg) -> String {
    match r {
        Reg::U(x) => fmt_u(x),
        Reg::I(x) => fmt_i(x),
    }
}

macro_rules! assign_ops {
    ($x:expr, $op:expr, $y:expr) => {
        match $op {
            "+=" => *$x += $y,
            "-=" => *$x -= $y,
            "*=" => *$x *= $y,
            "/=" => *$x /= $y,
            "%=" => *$x %= $y,
            "&=" => *$x &= $y,
            "|=" => *$x |= $y,
            "^=" => *$x ^= $y,
            _ => panic!("bad assign op"),
        }
    };
}
macro_rules! bin_ops {
    ($a:expr, $op:expr, $b:expr) => {
        match $op {
            "+" => $a + $b,
            "-" => $a - $b,
            "*" => $a * $b,
            "/" => $a / $b,
            "%" => $a % $b,
            "&" => $a & $b,
            "|" => $a | $b,
            "^" => $a ^ $b,
            _ => panic!("bad bin op"),
        }
    };
}
macro_rules! scalar_assign {
    ($x:expr, $op:expr, $s:expr) => {
        match $op {
            "+=" => *$x += $s,
            "-=" => *$x -= $s,
            "*=" => *$x *= $s,
            "/=" => *$x /= $s,
            "%=" => *$x %= $s,
            "<<=" => *$x <<= $s,
            ">>=" => *$x >>= $s,
            _ => panic!("bad scalar assign op"),
        }
    };
}

pub fn run(op: &str, t: &[&str], v: &[Val], out: &mut Out, st: &mut State) -> bool {
    if !op.starts_with('h') {
        return false;
    }
    // every step is guarded as a whole: a panicking step leaves the register as the library left it
    let regs = &mut st.regs;
    macro_rules! finish {
        ($k:expr) => {
            match regs.get($k) {
                Some(r) => out.push(&show_reg(r)),
                None => out.push("NOREG"),
            }
        };
    }
    match op {
        "hreset" => {
            regs.clear();
            out.push("ok");
        }
        // hset rK <literal>
        "hset" => {
            let r = match &v[2] {
                Val::U(x) => Reg::U(x.clone()),
                Val::I(x) => Reg::I(x.clone()),
                _ => panic!("hset literal"),
            };
            regs.insert(t[1].to_string(), r);
            finish!(t[1]);
        }
        // hnew rK <U|I+|I-|I0> <new|slice|assign> w<words>
        "hnew" => {
            let w = pwords(t[4]);
            let kind = t[2];
            let how = t[3];
            let ok = guard(|| {
                if kind == "U" {
                    let x = match how {
                        "new" => BigUint::new(w.clone()),
                        "slice" => BigUint::from_slice(&w),
                        _ => {
                            let mut x = match regs.remove(t[1]) {
                                Some(Reg::U(x)) => x,
                                _ => BigUint::from_slice(&[9u32; 30]),
                            };
                            x.assign_from_slice(&w);
                            x
                        }
                    };
                    regs.insert(t[1].to_string(), Reg::U(x));
                } else {
                    let s = sign_of(kind);
                    let x = match how {
                        "new" => BigInt::new(s, w.clone()),
                        "slice" => BigInt::from_slice(s, &w),
                        _ => {
                            let mut x = match regs.remove(t[1]) {
                                Some(Reg::I(x)) => x,
                                _ => BigInt::from_slice(Sign::Minus, &[9u32; 30]),
                            };
                            x.assign_from_slice(s, &w);
                            x
                        }
                    };
                    regs.insert(t[1].to_string(), Reg::I(x));
                }
            });
            if ok.is_none() {
                out.push("P");
            }
            finish!(t[1]);
        }
        // hbytes rK <U|I+|I-|I0|IS> <le|be> x<hex>      (IS = from_signed_bytes)
        "hbytes" => {
            let b = pbytes(t[4]);
            let le = t[3] == "le";
            let ok = guard(|| {
                let r = match t[2] {
                    "U" => Reg::U(if le { BigUint::from_bytes_le(&b) } else { BigUint::from_bytes_be(&b) }),
                    "IS" => Reg::I(if le { BigInt::from_signed_bytes_le(&b) } else { BigInt::from_signed_bytes_be(&b) }),
                    k => {
                        let s = sign_of(k);
                        Reg::I(if le { BigInt::from_bytes_le(s, &b) } else { BigInt::from_bytes_be(s, &b) })
                    }
                };
                regs.insert(t[1].to_string(), r);
            });
            if ok.is_none() {
                out.push("P");
            }
            finish!(t[1]);
        }
        // hradix rK <U|I+|I-|I0> <le|be> radix x<hex>
        "hradix" => {
            let radix: u32 = pnum(t[4]);
            let b = pbytes(t[5]);
            let le = t[3] == "le";
            let ok = guard(|| {
                let r = match t[2] {
                    "U" => Reg::U(if le { BigUint::from_radix_le(&b, radix) } else { BigUint::from_radix_be(&b, radix) }.expect("radix digits")),
                    k => {
                        let s = sign_of(k);
                        Reg::I(if le { BigInt::from_radix_le(s, &b, radix) } else { BigInt::from_radix_be(s, &b, radix) }.expect("radix digits"))
                    }
                };
                regs.insert(t[1].to_string(), r);
            });
            if ok.is_none() {
                out.push("P");
            }
            finish!(t[1]);
        }
        // hstr rK <U|I> radix s<hex>
        "hstr" => {
            let radix: u32 = pnum(t[3]);
            let s = String::from_utf8(hex_to_bytes(&t[4][1..])).unwrap();
            let ok = guard(|| {
                let r = if t[2] == "U" {
                    Reg::U(BigUint::from_str_radix(&s, radix).expect("valid string"))
                } else {
                    Reg::I(BigInt::from_str_radix(&s, radix).expect("valid string"))
                };
                regs.insert(t[1].to_string(), r);
            });
            if ok.is_none() {
                out.push("P");
            }
            finish!(t[1]);
        }
        // hfrombu rK <sign> rJ     rK = BigInt::from_biguint(sign, rJ.clone())
        "hfrombu" => {
            let s = match t[2] {
                "-1" => Sign::Minus,
                "0" => Sign::NoSign,
                _ => Sign::Plus,
            };
            let ok = guard(|| {
                let m = match regs.get(t[3]) {
                    Some(Reg::U(x)) => x.clone(),
                    _ => panic!("hfrombu needs U register"),
                };
                regs.insert(t[1].to_string(), Reg::I(BigInt::from_biguint(s, m)));
            });
            if ok.is_none() {
                out.push("P");
            }
            finish!(t[1]);
        }
        // hmag rK rJ : rK = rJ.magnitude().clone()  /  hparts rK rJ : rK = rJ.clone().into_parts().1
        "hmag" | "hparts" | "htobu" | "htobi" => {
            let ok = guard(|| {
                let r = match (op, regs.get(t[2])) {
                    ("hmag", Some(Reg::I(x))) => Reg::U(x.magnitude().clone()),
                    ("hparts", Some(Reg::I(x))) => Reg::U(x.clone().into_parts().1),
                    ("htobu", Some(Reg::I(x))) => Reg::U(x.to_biguint().expect("non-negative")),
                    ("htobi", Some(Reg::U(x))) => Reg::I(BigInt::from(x.clone())),
                    _ => panic!("bad register kind"),
                };
                regs.insert(t[1].to_string(), r);
            });
            if ok.is_none() {
                out.push("P");
            }
            finish!(t[1]);
        }
        // hop rK <op=> rJ        in-place, right operand by reference
        // hopv rK <op=> rJ       in-place, right operand by value (clone)
        "hop" | "hopv" => {
            let byval = op == "hopv";
            let ok = guard(|| {
                let rhs = match regs.get(t[3]) {
                    Some(Reg::U(y)) => Reg::U(y.clone()),
                    Some(Reg::I(y)) => Reg::I(y.clone()),
                    None => panic!("no rhs register"),
                };
                match (regs.get_mut(t[1]), rhs) {
                    (Some(Reg::U(x)), Reg::U(y)) => {
                        if byval { assign_ops!(x, t[2], y) } else { assign_ops!(x, t[2], &y) }
                    }
                    (Some(Reg::I(x)), Reg::I(y)) => {
                        if byval { assign_ops!(x, t[2], y) } else { assign_ops!(x, t[2], &y) }
                    }
                    _ => panic!("register kinds differ"),
                }
            });
            if ok.is_none() {
                out.push("P");
            }
            finish!(t[1]);
        }
        // hbin rK rI <op> rJ      rK = &rI op &rJ
        "hbin" => {
            let ok = guard(|| {
                let r = match (regs.get(t[2]), regs.get(t[4])) {
                    (Some(Reg::U(a)), Some(Reg::U(b))) => Reg::U(bin_ops!(a, t[3], b)),
                    (Some(Reg::I(a)), Some(Reg::I(b))) => Reg::I(bin_ops!(a, t[3], b)),
                    _ => panic!("register kinds differ"),
                };
                regs.insert(t[1].to_string(), r);
            });
            if ok.is_none() {
                out.push("P");
            }
            finish!(t[1]);
        }
        // hops rK <op=> <stype> <scalar>
        "hops" => {
            let ok = guard(|| {
                macro_rules! go {
                    ($T:ty) => {{
                        let s: $T = pnum(t[4]);
                        match regs.get_mut(t[1]) {
                            Some(Reg::U(x)) => scalar_assign!(x, t[2], s),
                            Some(Reg::I(x)) => scalar_assign!(x, t[2], s),
                            None => panic!("no register"),
                        }
                    }};
                }
                macro_rules! go_i {
                    // signed scalars: arithmetic only on BigInt, shifts on both
                    ($T:ty) => {{
                        let s: $T = pnum(t[4]);
                        match regs.get_mut(t[1]) {
                            Some(Reg::U(x)) => match t[2] {
                                "<<=" => *x <<= s,
                                ">>=" => *x >>= s,
                                _ => panic!("signed scalar arithmetic on BigUint"),
                            },
                            Some(Reg::I(x)) => scalar_assign!(x, t[2], s),
                            None => panic!("no register"),
                        }
                    }};
                }
                match t[3] {
                    "u8" => go!(u8),
                    "u16" => go!(u16),
                    "u32" => go!(u32),
                    "u64" => go!(u64),
                    "u128" => go!(u128),
                    "usize" => go!(usize),
                    "i8" => go_i!(i8),
                    "i16" => go_i!(i16),
                    "i32" => go_i!(i32),
                    "i64" => go_i!(i64),
                    "i128" => go_i!(i128),
                    "isize" => go_i!(isize),
                    _ => panic!("bad scalar type"),
                }
            });
            if ok.is_none() {
                out.push("P");
            }
            finish!(t[1]);
        }
        // hsetbit rK bit v
        "hsetbit" => {
            let k: u64 = pnum(t[2]);
            let val = t[3] == "1";
            let ok = guard(|| match regs.get_mut(t[1]) {
                Some(Reg::U(x)) => x.set_bit(k, val),
                Some(Reg::I(x)) => x.set_bit(k, val),
                None => panic!("no register"),
            });
            if ok.is_none() {
                out.push("P");
            }
            finish!(t[1]);
        }
        "hzero" | "hone" | "hneg" | "hnot" | "hinc" | "hdec" => {
            let ok = guard(|| match (op, regs.get_mut(t[1])) {
                ("hzero", Some(Reg::U(x))) => x.set_zero(),
                ("hzero", Some(Reg::I(x))) => x.set_zero(),
                ("hone", Some(Reg::U(x))) => x.set_one(),
                ("hone", Some(Reg::I(x))) => x.set_one(),
                ("hneg", Some(Reg::I(x))) => {
                    let y = std::mem::take(x);
                    *x = -y;
                }
                ("hnot", Some(Reg::I(x))) => {
                    let y = std::mem::take(x);
                    *x = !y;
                }
                ("hinc", Some(Reg::U(x))) => num_integer::Integer::inc(x),
                ("hinc", Some(Reg::I(x))) => num_integer::Integer::inc(x),
                ("hdec", Some(Reg::U(x))) => num_integer::Integer::dec(x),
                ("hdec", Some(Reg::I(x))) => num_integer::Integer::dec(x),
                _ => panic!("bad register"),
            });
            if ok.is_none() {
                out.push("P");
            }
            finish!(t[1]);
        }
        // hclonefrom rK rJ  (rK.clone_from(&rJ))   /   hclone rK rJ  (rK = rJ.clone())
        "hclonefrom" | "hclone" => {
            let ok = guard(|| {
                let src = match regs.get(t[2]) {
                    Some(Reg::U(y)) => Reg::U(y.clone()),
                    Some(Reg::I(y)) => Reg::I(y.clone()),
                    None => panic!("no source register"),
                };
                if op == "hclone" {
                    regs.insert(t[1].to_string(), src);
                } else {
                    match (regs.get_mut(t[1]), &src) {
                        (Some(Reg::U(x)), Reg::U(y)) => x.clone_from(y),
                        (Some(Reg::I(x)), Reg::I(y)) => x.clone_from(y),
                        _ => {
                            regs.insert(t[1].to_string(), src);
                        }
                    }
                }
            });
            if ok.is_none() {
                out.push("P");
            }
            finish!(t[1]);
        }
        // hobs rK : everything a user can observe about the value
        "hobs" => match regs.get(t[1]) {
            Some(Reg::U(x)) => {
                out.push(&fmt_u(x));
                out.named("hash", || hash_of(x));
                out.named("s10", || x.to_str_radix(10));
                out.named("s16", || format!("{:x}", x));
                out.named("be", || x.to_bytes_be());
                out.named("w32", || x.to_u32_digits());
                out.named("bits", || x.bits());
                out.named("is_zero", || x.is_zero());
            }
            Some(Reg::I(x)) => {
                out.push(&fmt_i(x));
                out.named("hash", || hash_of(x));
                out.named("s10", || x.to_str_radix(10));
                out.named("s16", || format!("{:x}", x));
                out.named("sbe", || x.to_signed_bytes_be());
                out.named("w32", || x.to_u32_digits());
                out.named("sign", || x.sign());
                out.named("is_zero", || x.is_zero());
            }
            None => out.push("NOREG"),
        },
        // hsame rI rJ : every comparison a user can make between the two
        "hsame" => {
            macro_rules! cmpall {
                ($a:expr, $b:expr) => {{
                    let (a, b) = ($a, $b);
                    out.named("eq", || a == b);
                    out.named("ne", || a != b);
                    out.named("cmp", || a.cmp(b) as i8);
                    out.named("pcmp", || a.partial_cmp(b).map(|o| o as i8));
                    out.named("lt", || a < b);
                    out.named("le", || a <= b);
                    out.named("gt", || a > b);
                    out.named("ge", || a >= b);
                    out.named("heq", || hash_of(a) == hash_of(b));
                    out.named("maxa", || std::cmp::max(a, b) == a);
                    out.named("mina", || std::cmp::min(a, b) == a);
                    // the by-value provided methods of Ord (an impl may override them)
                    out.named("vmaxa", || &Ord::max(a.clone(), b.clone()) == a);
                    out.named("vmina", || &Ord::min(a.clone(), b.clone()) == a);
                    out.named("clampa", || &Ord::clamp(a.clone(), Ord::min(a.clone(), b.clone()), Ord::max(a.clone(), b.clone())) == a);
                    out.named("clampb", || &Ord::clamp(b.clone(), a.clone(), a.clone()) == a);
                }};
            }
            match (regs.get(t[1]), regs.get(t[2])) {
                (Some(Reg::U(a)), Some(Reg::U(b))) => cmpall!(a, b),
                (Some(Reg::I(a)), Some(Reg::I(b))) => cmpall!(a, b),
                _ => out.push("NOREG"),
            }
        }
        // hsort r.. : sort clones of the registers; report the sorted values
        "hsort" => {
            let names = &t[1..];
            let all_u = names.iter().all(|n| matches!(regs.get(*n), Some(Reg::U(_))));
            let all_i = names.iter().all(|n| matches!(regs.get(*n), Some(Reg::I(_))));
            if all_u {
                let mut xs: Vec<BigUint> = names.iter().map(|n| match regs.get(*n) { Some(Reg::U(x)) => x.clone(), _ => unreachable!() }).collect();
                match guard(|| { xs.sort(); }) {
                    Some(_) => for x in &xs { out.push(&fmt_u(x)); },
                    None => out.push("P"),
                }
                out.named("max", || xs.iter().max().cloned());
                out.named("min", || xs.iter().min().cloned());
            } else if all_i {
                let mut xs: Vec<BigInt> = names.iter().map(|n| match regs.get(*n) { Some(Reg::I(x)) => x.clone(), _ => unreachable!() }).collect();
                match guard(|| { xs.sort(); }) {
                    Some(_) => for x in &xs { out.push(&fmt_i(x)); },
                    None => out.push("P"),
                }
                out.named("max", || xs.iter().max().cloned());
                out.named("min", || xs.iter().min().cloned());
            } else {
                out.push("NOREG");
            }
        }
        // hlit rK <literal> : compare a register with a freshly built literal of the same value
        "hlit" => {
            macro_rules! cmplit {
                ($a:expr, $b:expr) => {{
                    let (a, b) = ($a, $b);
                    out.named("eq", || a == b);
                    out.named("cmp", || a.cmp(b) as i8);
                    out.named("heq", || hash_of(a) == hash_of(b));
                }};
            }
            match (regs.get(t[1]), &v[2]) {
                (Some(Reg::U(a)), Val::U(b)) => cmplit!(a, b),
                (Some(Reg::I(a)), Val::I(b)) => cmplit!(a, b),
                _ => out.push("NOREG"),
            }
        }
        _ => return false,
    }
    let _ = One::is_one(&BigUint::ZERO);
    true
}
