//! Guard-page global allocator (C15).  Every heap block is placed so that it ends (mode `end`)
//! or starts (mode `start`) exactly at an inaccessible page, and freed blocks become
//! inaccessible, so an out-of-bounds or use-after-free access by *any* code - including the
//! hand-written asm loops that compiler sanitizers cannot see into - is a SIGSEGV at the
//! faulting instruction.  Address space is never reused (bump allocation in a large
//! PROT_NONE/NORESERVE arena); physical pages are returned with MADV_DONTNEED on free.
use std::alloc::{GlobalAlloc, Layout, System};
use std::sync::atomic::{AtomicU8, AtomicUsize, Ordering::*};

const PAGE: usize = 4096;
const ARENA: usize = 1 << 39; // 512 GiB of address space

pub struct GuardAlloc;
static MODE: AtomicU8 = AtomicU8::new(0); // 0 off, 1 end, 2 start
static BASE: AtomicUsize = AtomicUsize::new(0);
static NEXT: AtomicUsize = AtomicUsize::new(0);
pub static NALLOC: AtomicUsize = AtomicUsize::new(0);

pub fn set_mode(m: &str) {
    let v = match m {
        "end" => 1,
        "start" => 2,
        _ => 0,
    };
    if v != 0 && BASE.load(Relaxed) == 0 {
        unsafe {
            let b = libc::mmap(
                std::ptr::null_mut(),
                ARENA,
                libc::PROT_NONE,
                libc::MAP_PRIVATE | libc::MAP_ANONYMOUS | libc::MAP_NORESERVE,
                -1,
                0,
            );
            assert!(b != libc::MAP_FAILED, "guard arena mmap failed");
            BASE.store(b as usize, Relaxed);
        }
    }
    MODE.store(v, Relaxed);
}

pub fn active() -> bool {
    MODE.load(Relaxed) != 0
}

/// Make the pages holding [ptr, ptr+len) read-only (or read-write again).  Only meaningful for blocks handed out
/// by this allocator in guard mode: each such block has its pages to itself.
pub fn protect(ptr: *const u8, len: usize, readonly: bool) {
    let b = BASE.load(Relaxed);
    let a = ptr as usize;
    if b == 0 || len == 0 || a < b || a >= b + ARENA {
        return;
    }
    let start = a & !(PAGE - 1);
    let end = (a + len + PAGE - 1) & !(PAGE - 1);
    let prot = if readonly { libc::PROT_READ } else { libc::PROT_READ | libc::PROT_WRITE };
    unsafe {
        libc::mprotect(start as *mut libc::c_void, end - start, prot);
    }
}

pub fn allocs() -> usize {
    NALLOC.load(Relaxed)
}

unsafe impl GlobalAlloc for GuardAlloc {
    unsafe fn alloc(&self, l: Layout) -> *mut u8 {
        let mode = MODE.load(Relaxed);
        if mode == 0 || l.size() == 0 {
            return System.alloc(l);
        }
        let pages = (l.size() + PAGE - 1) / PAGE;
        // layout in the arena: [guard page][data pages]; the next block's leading guard page is
        // this block's trailing guard page.
        let span = (pages + 1) * PAGE;
        let off = NEXT.fetch_add(span, Relaxed);
        if off + span + PAGE > ARENA {
            return std::ptr::null_mut();
        }
        let data = BASE.load(Relaxed) + off + PAGE;
        if libc::mprotect(data as *mut libc::c_void, pages * PAGE, libc::PROT_READ | libc::PROT_WRITE) != 0 {
            return std::ptr::null_mut();
        }
        NALLOC.fetch_add(1, Relaxed);
        if mode == 1 {
            let end = data + pages * PAGE;
            ((end - l.size()) & !(l.align() - 1)) as *mut u8
        } else {
            data as *mut u8
        }
    }
    unsafe fn dealloc(&self, p: *mut u8, l: Layout) {
        let b = BASE.load(Relaxed);
        let a = p as usize;
        if b != 0 && a >= b && a < b + ARENA {
            let start = a & !(PAGE - 1);
            let pages = ((a - start) + l.size() + PAGE - 1) / PAGE;
            libc::madvise(start as *mut libc::c_void, pages * PAGE, libc::MADV_DONTNEED);
            libc::mprotect(start as *mut libc::c_void, pages * PAGE, libc::PROT_NONE);
        } else {
            System.dealloc(p, l)
        }
    }
}
