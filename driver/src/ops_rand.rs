//! C18: random generation driven by deterministic, fully logged RNGs.
use crate::util::*;
use num_bigint::{BigInt, BigUint, RandBigInt, RandomBits, UniformBigInt, UniformBigUint};
use rand::distributions::uniform::UniformSampler;
use rand::distributions::Distribution;
use rand::{Rng, RngCore};

/// Byte-stream RNG: hands out the scripted bytes first, then a deterministic tail; counts
/// every byte it hands out.
pub struct Stream {
    script: Vec<u8>,
    pos: usize,
    tail: Tail,
    pub consumed: u64,
    ctr: u64,
    sm: u64,
    buf: Vec<u8>,
}
enum Tail {
    Zeros,
    Ones,
    Counter,
    SplitMix,
}
impl Stream {
    pub fn parse(spec: &str) -> Stream {
        // x<hex>:<z|o|c|s<seed>>
        let mut it = spec.splitn(2, ':');
        let h = it.next().unwrap();
        let tl = it.next().unwrap_or("z");
        let script = hex_to_bytes(&h[1..]);
        let (tail, sm) = match tl.as_bytes()[0] {
            b'z' => (Tail::Zeros, 0),
            b'o' => (Tail::Ones, 0),
            b'c' => (Tail::Counter, 0),
            _ => (Tail::SplitMix, tl[1..].parse::<u64>().unwrap()),
        };
        Stream { script, pos: 0, tail, consumed: 0, ctr: 0, sm, buf: vec![] }
    }
    fn byte(&mut self) -> u8 {
        self.consumed += 1;
        if self.pos < self.script.len() {
            self.pos += 1;
            return self.script[self.pos - 1];
        }
        match self.tail {
            Tail::Zeros => 0,
            Tail::Ones => 0xff,
            Tail::Counter => {
                self.ctr = self.ctr.wrapping_add(1);
                (self.ctr & 0xff) as u8
            }
            Tail::SplitMix => {
                if self.buf.is_empty() {
                    self.sm = self.sm.wrapping_add(0x9e3779b97f4a7c15);
                    let mut z = self.sm;
                    z = (z ^ (z >> 30)).wrapping_mul(0xbf58476d1ce4e5b9);
                    z = (z ^ (z >> 27)).wrapping_mul(0x94d049bb133111eb);
                    z ^= z >> 31;
                    self.buf = z.to_be_bytes().to_vec();
                }
                self.buf.pop().unwrap()
            }
        }
    }
}
impl RngCore for Stream {
    fn next_u32(&mut self) -> u32 {
        let mut b = [0u8; 4];
        self.fill_bytes(&mut b);
        u32::from_le_bytes(b)
    }
    fn next_u64(&mut self) -> u64 {
        let mut b = [0u8; 8];
        self.fill_bytes(&mut b);
        u64::from_le_bytes(b)
    }
    fn fill_bytes(&mut self, dest: &mut [u8]) {
        for d in dest.iter_mut() {
            *d = self.byte();
        }
    }
    fn try_fill_bytes(&mut self, dest: &mut [u8]) -> Result<(), rand::Error> {
        self.fill_bytes(dest);
        Ok(())
    }
}

#[cfg(num_bigint_verif)]
fn set_budget(n: u64) {
    num_bigint::verif_probe::set_budget(n);
}
#[cfg(not(num_bigint_verif))]
fn set_budget(_n: u64) {}

fn rng_consumed(r: &Stream) -> usize {
    r.consumed as usize
}

pub fn run(op: &str, t: &[&str], v: &[Val], out: &mut Out) -> bool {
    if op != "rand" {
        return false;
    }
    // rand <fn> <rngspec> args...
    let f = t[1];
    let mut rng = Stream::parse(t[2]);
    clear_last_panic();
    set_budget(20_000);
    {
        let r = &mut rng;
        match f {
            "biguint" => { let n: u64 = pnum(t[3]); out.call(|| r.gen_biguint(n)); }
            "bigint" => { let n: u64 = pnum(t[3]); out.call(|| r.gen_bigint(n)); }
            "below" => { out.call(|| r.gen_biguint_below(v[3].u())); }
            "urange" => { out.call(|| r.gen_biguint_range(v[3].u(), v[4].u())); }
            "irange" => { out.call(|| r.gen_bigint_range(v[3].i(), v[4].i())); }
            "rbits_u" => { let n: u64 = pnum(t[3]); out.call(|| { let x: BigUint = RandomBits::new(n).sample(r); x }); }
            "rbits_i" => { let n: u64 = pnum(t[3]); out.call(|| { let x: BigInt = RandomBits::new(n).sample(r); x }); }
            "rbits_gen_u" => { let n: u64 = pnum(t[3]); out.call(|| { let x: BigUint = r.sample(RandomBits::new(n)); x }); }
            "uni_u" => { out.call(|| UniformBigUint::new(v[3].u(), v[4].u()).sample(r)); }
            "uni_u_inc" => { out.call(|| UniformBigUint::new_inclusive(v[3].u(), v[4].u()).sample(r)); }
            "uni_i" => { out.call(|| UniformBigInt::new(v[3].i(), v[4].i()).sample(r)); }
            "uni_i_inc" => { out.call(|| UniformBigInt::new_inclusive(v[3].i(), v[4].i()).sample(r)); }
            "single_u" => { out.call(|| UniformBigUint::sample_single(v[3].u(), v[4].u(), r)); }
            "single_i" => { out.call(|| UniformBigInt::sample_single(v[3].i(), v[4].i(), r)); }
            "range_u" => { out.call(|| r.gen_range(v[3].u().clone()..v[4].u().clone())); }
            "range_u_inc" => { out.call(|| r.gen_range(v[3].u().clone()..=v[4].u().clone())); }
            "range_i" => { out.call(|| r.gen_range(v[3].i().clone()..v[4].i().clone())); }
            "range_i_inc" => { out.call(|| r.gen_range(v[3].i().clone()..=v[4].i().clone())); }
            // cover_i <n> : the set of values gen_bigint(n) produces over every stream whose first three words have
            // each of the 8 top-3-bit patterns (n <= 3), sorted
            "cover_i" => {
                let n: u64 = pnum(t[3]);
                let mut seen: Vec<BigInt> = vec![];
                let ok = guard(|| {
                    for pat in 0..512u32 {
                        let mut script = vec![];
                        for k in 0..3 {
                            script.extend_from_slice(&(((pat >> (3 * k)) & 7) << 29).to_le_bytes());
                        }
                        let mut s = Stream::parse(&format!("x{}:c", script.iter().map(|b| format!("{:02x}", b)).collect::<String>()));
                        let x = s.gen_bigint(n);
                        if !seen.contains(&x) {
                            seen.push(x);
                        }
                    }
                });
                if ok.is_none() {
                    out.push("P");
                }
                seen.sort();
                for x in seen {
                    out.call(|| x.clone());
                }
            }
            // two draws from one stream: second result depends on exactly how much the first consumed
            "twice_u" => {
                let n: u64 = pnum(t[3]);
                out.call(|| r.gen_biguint(n));
                out.call(|| r.gen_biguint(n));
            }
            _ => out.push("UNKNOWN"),
        }
    }
    out.push(&format!("n{}", rng.consumed));
    // RandomBits must be the same function of the stream as gen_biguint / gen_bigint: the reference draw from an
    // identical fresh stream, and how much of it that consumed
    if f.starts_with("rbits") {
        let mut r2 = Stream::parse(t[2]);
        let n: u64 = pnum(t[3]);
        if f == "rbits_i" {
            out.named("ref", || r2.gen_bigint(n));
        } else {
            out.named("ref", || r2.gen_biguint(n));
        }
        out.push(&format!("refn=n{}", rng_consumed(&r2)));
    }
    set_budget(u64::MAX);
    if last_panic().contains("step budget exhausted") {
        out.push("BUDGET");
    }
    true
}
