//! nbdrive: a dumb interpreter that calls the public API of num-bigint exactly as a user would
//! and writes down what happened.  One command per input line, one result line per command.
//! All judgement lives in the Python monitor; the only comparisons made here are between
//! different *forms* of the same library operation (C10) and the observation-channel check.
#![allow(clippy::all)]

mod util;
mod forms;
mod ops_arith;
mod ops_conv;
mod ops_misc;
mod hist;
#[cfg(feature = "serde")]
mod ops_serde;
#[cfg(feature = "rand")]
mod ops_rand;
#[cfg(any(feature = "arbitrary", feature = "quickcheck"))]
mod ops_gen;
#[cfg(feature = "guardalloc")]
mod guard_alloc;

use std::io::{BufRead, Write};
use util::*;

#[cfg(feature = "guardalloc")]
#[global_allocator]
static GLOBAL: guard_alloc::GuardAlloc = guard_alloc::GuardAlloc;

/// Per-command CPU-time budget (bounded-progress watchdog): a call that is still running after this much *CPU time*
/// of the process is killed by SIGVTALRM and attributed to the command by the orchestrator.  Every command of every
/// workload normally takes milliseconds (a few seconds at most in unoptimised builds).
#[cfg(not(miri))]
fn arm_cpu_timer(secs: i64) {
    let it = libc::itimerval {
        it_interval: libc::timeval { tv_sec: 0, tv_usec: 0 },
        it_value: libc::timeval { tv_sec: secs as _, tv_usec: 0 },
    };
    unsafe {
        libc::setitimer(libc::ITIMER_VIRTUAL, &it, std::ptr::null_mut());
    }
}
#[cfg(miri)]
fn arm_cpu_timer(_secs: i64) {}

fn main() {
    let args: Vec<String> = std::env::args().collect();
    // usage: nbdrive <script> [<from> [<to>]]   ('-' = stdin); output on stdout
    let path = args.get(1).map(|s| s.as_str()).unwrap_or("-");
    let from: usize = args.get(2).and_then(|s| s.parse().ok()).unwrap_or(0);
    let to: usize = args.get(3).and_then(|s| s.parse().ok()).unwrap_or(usize::MAX);

    install_panic_hook();
    #[cfg(feature = "guardalloc")]
    if let Ok(m) = std::env::var("NBD_GUARD") {
        guard_alloc::set_mode(&m);
    }

    let reader: Box<dyn BufRead> = if path == "-" {
        Box::new(std::io::BufReader::new(std::io::stdin()))
    } else {
        Box::new(std::io::BufReader::new(std::fs::File::open(path).expect("open script")))
    };
    let stdout = std::io::stdout();
    let mut w = std::io::BufWriter::with_capacity(1 << 16, stdout.lock());
    let mut st = hist::State::new();

    writeln!(w, "# nbdrive cfg={}", cfg_string()).unwrap();
    #[cfg(num_bigint_verif)]
    writeln!(w, "# probes {}", num_bigint::verif_probe::NAMES.join(",")).unwrap();
    w.flush().unwrap();

    let cpu_budget: i64 = std::env::var("NBD_CMD_CPU_S").ok().and_then(|s| s.parse().ok()).unwrap_or(30);
    let mut idx = 0usize;
    for line in reader.lines() {
        let line = line.expect("read line");
        let line = line.trim_end();
        if line.is_empty() || line.starts_with('#') {
            continue;
        }
        let my = idx;
        idx += 1;
        if my < from || my >= to {
            continue;
        }
        let toks: Vec<&str> = line.split(' ').collect();
        let mut out = Out::new();
        // BEGIN marker: lets the orchestrator name the command that killed the process.
        write!(w, "B {}\n", my).unwrap();
        w.flush().unwrap();
        arm_cpu_timer(cpu_budget);
        let vals: Vec<Val> = toks.iter().map(|t| Val::parse(t)).collect();
        #[cfg(num_bigint_verif)]
        let snap0 = num_bigint::verif_probe::snapshot();
        // under the guard allocator the digit buffers of the operands are read-only for the duration of the
        // command: every form only borrows or clones them, so a store into one (even if later undone) faults
        #[cfg(all(feature = "guardalloc", num_bigint_verif))]
        let prot: Vec<(*const u8, usize)> = if guard_alloc::active() {
            vals.iter()
                .filter_map(|v| match v {
                    Val::U(x) => Some(num_bigint::verif_probe::raw_parts(x)),
                    Val::I(x) => Some(num_bigint::verif_probe::raw_parts(x.magnitude())),
                    Val::Other => None,
                })
                .filter(|(_, _, cap)| *cap > 0)
                .map(|(p, _, cap)| (p, cap))
                .collect()
        } else {
            vec![]
        };
        #[cfg(all(feature = "guardalloc", num_bigint_verif))]
        for (p, n) in &prot {
            guard_alloc::protect(*p, *n, true);
        }
        let r = std::panic::catch_unwind(std::panic::AssertUnwindSafe(|| {
            dispatch(&toks, &vals, &mut out, &mut st)
        }));
        #[cfg(all(feature = "guardalloc", num_bigint_verif))]
        for (p, n) in &prot {
            guard_alloc::protect(*p, *n, false);
        }
        if r.is_err() {
            // a panic that escaped the per-call guards: harness-level, reported as such
            out.toks.clear();
            out.push("ESCAPED");
        }
        // borrowed operands must be bit-identical after the call (C15)
        for (k, (t, v)) in toks.iter().zip(vals.iter()).enumerate() {
            if !v.same_as_token(t) {
                out.push(&format!("!mut{}", k));
            }
        }
        // which instrumented regimes did this command reach? (per-command probe deltas)
        #[cfg(num_bigint_verif)]
        {
            let snap1 = num_bigint::verif_probe::snapshot();
            let mut s = String::from("@");
            for (k, (a, b)) in snap0.iter().zip(snap1.iter()).enumerate() {
                if b > a {
                    if s.len() > 1 {
                        s.push(',');
                    }
                    s.push_str(&format!("{}:{}", k, b - a));
                }
            }
            if s.len() > 1 {
                out.push(&s);
            }
        }
        arm_cpu_timer(0);
        write!(w, "R {} {}\n", my, out.toks.join(" ")).unwrap();
        w.flush().unwrap();
    }
    // probe summary
    #[cfg(num_bigint_verif)]
    {
        let snap = num_bigint::verif_probe::snapshot();
        let mut s = String::from("P");
        for (n, c) in num_bigint::verif_probe::NAMES.iter().zip(snap.iter()) {
            if *c > 0 {
                s.push_str(&format!(" {}={}", n, c));
            }
        }
        writeln!(w, "{}", s).unwrap();
    }
    #[cfg(feature = "guardalloc")]
    writeln!(w, "# guard_allocs {}", guard_alloc::allocs()).unwrap();
    writeln!(w, "END {}", idx).unwrap();
    w.flush().unwrap();
}

fn cfg_string() -> String {
    let mut v = vec![];
    if cfg!(feature = "std") { v.push("std"); } else { v.push("nostd"); }
    if cfg!(feature = "rand") { v.push("rand"); }
    if cfg!(feature = "serde") { v.push("serde"); }
    if cfg!(feature = "arbitrary") { v.push("arbitrary"); }
    if cfg!(feature = "quickcheck") { v.push("quickcheck"); }
    if cfg!(feature = "guardalloc") { v.push("guardalloc"); }
    if cfg!(debug_assertions) { v.push("debug"); } else { v.push("release"); }
    if cfg!(target_pointer_width = "64") { v.push("d64"); } else { v.push("d32"); }
    if cfg!(target_endian = "big") { v.push("be"); } else { v.push("le"); }
    if cfg!(num_bigint_verif) { v.push("hooks"); }
    v.join(",")
}

fn dispatch(t: &[&str], v: &[Val], out: &mut Out, st: &mut hist::State) {
    let op = t[0];
    if ops_arith::run(op, t, v, out) { return; }
    if ops_conv::run(op, t, v, out) { return; }
    if ops_misc::run(op, t, v, out) { return; }
    if forms::run(op, t, v, out) { return; }
    if hist::run(op, t, v, out, st) { return; }
    #[cfg(feature = "serde")]
    if ops_serde::run(op, t, v, out) { return; }
    #[cfg(feature = "rand")]
    if ops_rand::run(op, t, v, out) { return; }
    #[cfg(any(feature = "arbitrary", feature = "quickcheck"))]
    if ops_gen::run(op, t, v, out) { return; }
    #[cfg(feature = "guardalloc")]
    if op == "guardmode" {
        guard_alloc::set_mode(t[1]);
        out.push("ok");
        return;
    }
    out.push("UNKNOWN");
}
