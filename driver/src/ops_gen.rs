//! Values produced by the `arbitrary` / `quickcheck` generators (C04: they must be canonical).
use crate::util::*;
use num_bigint::{BigInt, BigUint};
use std::collections::hash_map::DefaultHasher;
use std::hash::{Hash, Hasher};

fn h<T: Hash>(x: &T) -> u64 {
    let mut s = DefaultHasher::new();
    x.hash(&mut s);
    s.finish()
}

fn report_u(out: &mut Out, x: &BigUint) {
    out.push(&fmt_u(x));
    let rebuilt = BigUint::from_slice(&x.to_u32_digits());
    out.named("selfeq", || *x == rebuilt);
    out.named("selfhash", || h(x) == h(&rebuilt));
}
fn report_i(out: &mut Out, x: &BigInt) {
    out.push(&fmt_i(x));
    let (s, d) = x.to_u32_digits();
    let rebuilt = BigInt::from_slice(s, &d);
    out.named("selfeq", || *x == rebuilt);
    out.named("selfhash", || h(x) == h(&rebuilt));
}

pub fn run(op: &str, t: &[&str], _v: &[Val], out: &mut Out) -> bool {
    match op {
        // arb <U|I> <plain|rest> x<bytes>
        #[cfg(feature = "arbitrary")]
        "arb" => {
            use arbitrary::{Arbitrary, Unstructured};
            let bytes = pbytes(t[3]);
            let rest = t[2] == "rest";
            if t[1] == "U" {
                let r = guard(|| {
                    let mut u = Unstructured::new(&bytes);
                    if rest { BigUint::arbitrary_take_rest(u) } else { BigUint::arbitrary(&mut u) }
                });
                match r {
                    Some(Ok(x)) => report_u(out, &x),
                    Some(Err(_)) => out.push("E"),
                    None => out.push("P"),
                }
            } else {
                let r = guard(|| {
                    let mut u = Unstructured::new(&bytes);
                    if rest { BigInt::arbitrary_take_rest(u) } else { BigInt::arbitrary(&mut u) }
                });
                match r {
                    Some(Ok(x)) => report_i(out, &x),
                    Some(Err(_)) => out.push("E"),
                    None => out.push("P"),
                }
            }
        }
        // qc <U|I> <size> <count> : quickcheck generator output and the first few shrinks of each
        #[cfg(feature = "quickcheck")]
        "qc" => {
            use quickcheck::{Arbitrary, Gen};
            let size: usize = pnum(t[2]);
            let count: usize = pnum(t[3]);
            let mut g = Gen::new(size);
            for _ in 0..count {
                if t[1] == "U" {
                    match guard(|| BigUint::arbitrary(&mut g)) {
                        Some(x) => {
                            report_u(out, &x);
                            if let Some(sh) = guard(|| x.shrink().take(4).collect::<Vec<_>>()) {
                                for y in &sh {
                                    report_u(out, y);
                                }
                            } else {
                                out.push("P");
                            }
                        }
                        None => out.push("P"),
                    }
                } else {
                    match guard(|| BigInt::arbitrary(&mut g)) {
                        Some(x) => {
                            report_i(out, &x);
                            if let Some(sh) = guard(|| x.shrink().take(4).collect::<Vec<_>>()) {
                                for y in &sh {
                                    report_i(out, y);
                                }
                            } else {
                                out.push("P");
                            }
                        }
                        None => out.push("P"),
                    }
                }
            }
        }
        _ => return false,
    }
    true
}
