use num_bigint::{BigInt, BigUint, Sign};
use std::panic::{catch_unwind, AssertUnwindSafe};

/// Run one library call; `None` = it panicked.
pub fn guard<T>(f: impl FnOnce() -> T) -> Option<T> {
    catch_unwind(AssertUnwindSafe(f)).ok()
}

// ---------------------------------------------------------------------------------------------
// operand tokens

pub enum Val {
    U(BigUint),
    I(BigInt),
    Other,
}

fn hex_val(c: u8) -> u32 {
    match c {
        b'0'..=b'9' => (c - b'0') as u32,
        b'a'..=b'f' => (c - b'a' + 10) as u32,
        b'A'..=b'F' => (c - b'A' + 10) as u32,
        _ => panic!("bad hex"),
    }
}

/// hex (most significant first) -> little-endian u32 words; does NOT strip leading zeros, so a
/// script can ask for redundant high zero words.
pub fn hex_to_words(h: &str) -> Vec<u32> {
    let b = h.as_bytes();
    let mut words = Vec::with_capacity(b.len() / 8 + 1);
    let mut end = b.len();
    while end > 0 {
        let start = end.saturating_sub(8);
        let mut w = 0u32;
        for &c in &b[start..end] {
            w = (w << 4) | hex_val(c);
        }
        words.push(w);
        end = start;
    }
    words
}

pub fn hex_to_bytes(h: &str) -> Vec<u8> {
    let b = h.as_bytes();
    assert!(b.len() % 2 == 0, "odd hex bytes");
    b.chunks(2).map(|p| ((hex_val(p[0]) << 4) | hex_val(p[1])) as u8).collect()
}

pub fn bytes_to_hex(b: &[u8]) -> String {
    let mut s = String::with_capacity(b.len() * 2);
    for x in b {
        s.push_str(&format!("{:02x}", x));
    }
    s
}

static SLACK: std::sync::atomic::AtomicBool = std::sync::atomic::AtomicBool::new(false);
pub fn set_slack(v: bool) {
    SLACK.store(v, std::sync::atomic::Ordering::Relaxed);
}

/// Build a BigUint operand from hex through `from_slice`; the result is cloned so that its
/// allocation is exactly as long as the value (capacity == length), unless slack mode is on.
pub fn mk_u(h: &str) -> BigUint {
    let x = BigUint::from_slice(&hex_to_words(h));
    if SLACK.load(std::sync::atomic::Ordering::Relaxed) {
        slack_u(&x)
    } else {
        x.clone()
    }
}

pub fn mk_i(s: &str) -> BigInt {
    // s = "+hex" | "-hex" | "0"
    let (sign, h) = match s.as_bytes().first() {
        Some(b'-') => (Sign::Minus, &s[1..]),
        Some(b'+') => (Sign::Plus, &s[1..]),
        Some(b'0') | None => (Sign::NoSign, ""),
        _ => panic!("bad bigint token"),
    };
    BigInt::from_biguint(sign, mk_u(h))
}

/// A copy of `x` whose buffer is (normally) about three times longer than the value.
pub fn slack_u(x: &BigUint) -> BigUint {
    let n = x.iter_u64_digits().len() as u64;
    if n == 0 {
        return x.clone();
    }
    let mut y = x.clone();
    let bit = 64 * (3 * n + 2);
    y.set_bit(bit, true);
    y.set_bit(bit, false);
    if raw_u(&y) == raw_u(x) {
        y
    } else {
        x.clone()
    }
}
pub fn slack_i(x: &BigInt) -> BigInt {
    let (s, m) = x.clone().into_parts();
    BigInt::from_biguint(s, slack_u(&m))
}

impl Val {
    pub fn parse(t: &str) -> Val {
        let hex_ok = |h: &str| h.bytes().all(|c| c.is_ascii_hexdigit());
        match t.as_bytes().first() {
            Some(b'U') if hex_ok(&t[1..]) => Val::U(mk_u(&t[1..])),
            Some(b'I') => {
                let r = &t[1..];
                let ok = r == "0" || ((r.starts_with('+') || r.starts_with('-')) && hex_ok(&r[1..]));
                if ok { Val::I(mk_i(r)) } else { Val::Other }
            }
            _ => Val::Other,
        }
    }
    pub fn u(&self) -> &BigUint {
        match self {
            Val::U(x) => x,
            _ => panic!("expected U operand"),
        }
    }
    pub fn i(&self) -> &BigInt {
        match self {
            Val::I(x) => x,
            _ => panic!("expected I operand"),
        }
    }
    pub fn is_u(&self) -> bool {
        matches!(self, Val::U(_))
    }
    pub fn is_i(&self) -> bool {
        matches!(self, Val::I(_))
    }
    /// Does the operand still hold exactly the digits the script asked for?
    pub fn same_as_token(&self, t: &str) -> bool {
        match self {
            Val::U(x) => raw_u(x) == words_to_u64(&hex_to_words(&t[1..])),
            Val::I(x) => {
                let s = &t[1..];
                let (sg, h) = match s.as_bytes().first() {
                    Some(b'-') => (-1i8, &s[1..]),
                    Some(b'+') => (1, &s[1..]),
                    _ => (0, ""),
                };
                let mut d = words_to_u64(&hex_to_words(h));
                let mut sg = sg;
                if d.is_empty() {
                    sg = 0;
                }
                if sg == 0 {
                    d.clear();
                }
                raw_i(x) == (sg, d)
            }
            Val::Other => true,
        }
    }
}

fn words_to_u64(w: &[u32]) -> Vec<u64> {
    let mut d: Vec<u64> = w
        .chunks(2)
        .map(|c| c[0] as u64 | ((*c.get(1).unwrap_or(&0) as u64) << 32))
        .collect();
    while d.last() == Some(&0) {
        d.pop();
    }
    d
}

// ---------------------------------------------------------------------------------------------
// raw observation of values

pub fn raw_u(x: &BigUint) -> Vec<u64> {
    x.iter_u64_digits().collect()
}
pub fn sign_i8(s: Sign) -> i8 {
    match s {
        Sign::Minus => -1,
        Sign::NoSign => 0,
        Sign::Plus => 1,
    }
}
pub fn raw_i(x: &BigInt) -> (i8, Vec<u64>) {
    (sign_i8(x.sign()), x.iter_u64_digits().collect())
}

fn digits_hex(d: &[u64]) -> String {
    // most significant first; top digit unpadded (so a redundant zero top digit shows as "0...")
    let mut s = String::with_capacity(d.len() * 16);
    for (k, x) in d.iter().rev().enumerate() {
        if k == 0 {
            s.push_str(&format!("{:x}", x));
        } else {
            s.push_str(&format!("{:016x}", x));
        }
    }
    s
}

fn digits_bytes_le(d: &[u64]) -> Vec<u8> {
    let mut b: Vec<u8> = d.iter().flat_map(|x| x.to_le_bytes()).collect();
    while b.last() == Some(&0) {
        b.pop();
    }
    if b.is_empty() {
        b.push(0);
    }
    b
}

/// `U<ndigits>.<hex>`; a second export channel (to_bytes_le) is compared in-process and a
/// disagreement is flagged with a `~chan` suffix.
pub fn fmt_u(x: &BigUint) -> String {
    let d = raw_u(x);
    let mut s = format!("U{}.{}", d.len(), digits_hex(&d));
    let ok = guard(|| x.to_bytes_le()).map(|b| b == digits_bytes_le(&d)).unwrap_or(false);
    if !ok {
        s.push_str("~chan");
    }
    s
}
pub fn fmt_i(x: &BigInt) -> String {
    let (sg, d) = raw_i(x);
    let c = match sg {
        -1 => '-',
        0 => '0',
        _ => '+',
    };
    let mut s = format!("I{}{}.{}", c, d.len(), digits_hex(&d));
    let ok = guard(|| x.to_bytes_le())
        .map(|(s2, b)| b == digits_bytes_le(&d) && sign_i8(s2) == sg)
        .unwrap_or(false);
    if !ok {
        s.push_str("~chan");
    }
    s
}
pub fn fmt_sign(s: Sign) -> String {
    format!("n{}", sign_i8(s))
}

pub trait Show {
    fn show(&self) -> String;
}
impl Show for BigUint {
    fn show(&self) -> String {
        fmt_u(self)
    }
}
impl Show for BigInt {
    fn show(&self) -> String {
        fmt_i(self)
    }
}
impl Show for bool {
    fn show(&self) -> String {
        if *self { "T".into() } else { "F".into() }
    }
}
impl Show for Sign {
    fn show(&self) -> String {
        fmt_sign(*self)
    }
}
impl Show for String {
    fn show(&self) -> String {
        // validated byte-wise before any other use (C15): the bytes are reported as they are
        format!("s{}", bytes_to_hex(self.as_bytes()))
    }
}
impl Show for Vec<u8> {
    fn show(&self) -> String {
        format!("x{}", bytes_to_hex(self))
    }
}
impl Show for Vec<u32> {
    fn show(&self) -> String {
        let mut s = String::from("w");
        for (k, x) in self.iter().enumerate() {
            if k > 0 {
                s.push(',');
            }
            s.push_str(&format!("{:x}", x));
        }
        s
    }
}
impl Show for Vec<u64> {
    fn show(&self) -> String {
        let mut s = String::from("q");
        for (k, x) in self.iter().enumerate() {
            if k > 0 {
                s.push(',');
            }
            s.push_str(&format!("{:x}", x));
        }
        s
    }
}
macro_rules! show_num {
    ($($t:ty),*) => {$(
        impl Show for $t { fn show(&self) -> String { format!("n{}", self) } }
    )*}
}
show_num!(u8, u16, u32, u64, u128, usize, i8, i16, i32, i64, i128, isize);
impl Show for f32 {
    fn show(&self) -> String {
        format!("f{:08x}", self.to_bits())
    }
}
impl Show for f64 {
    fn show(&self) -> String {
        format!("d{:016x}", self.to_bits())
    }
}
impl<T: Show> Show for Option<T> {
    fn show(&self) -> String {
        match self {
            Some(x) => x.show(),
            None => "N".into(),
        }
    }
}
impl<A: Show, B: Show> Show for (A, B) {
    fn show(&self) -> String {
        format!("{} {}", self.0.show(), self.1.show())
    }
}
impl<A: Show, B: Show, C: Show> Show for (A, B, C) {
    fn show(&self) -> String {
        format!("{} {} {}", self.0.show(), self.1.show(), self.2.show())
    }
}

/// a pre-rendered token
pub struct Raw(pub String);
impl Show for Raw {
    fn show(&self) -> String {
        self.0.clone()
    }
}

pub struct Out {
    pub toks: Vec<String>,
}
impl Out {
    pub fn new() -> Out {
        Out { toks: vec![] }
    }
    pub fn push(&mut self, s: &str) {
        self.toks.push(s.to_string());
    }
    /// one guarded library call whose result is reported (or `P` when it panicked)
    pub fn call<T: Show>(&mut self, f: impl FnOnce() -> T) -> Option<T> {
        let r = guard(f);
        match &r {
            Some(x) => self.toks.push(x.show()),
            None => self.toks.push("P".into()),
        }
        r
    }
    /// labelled call: `name=<value>`
    pub fn named<T: Show>(&mut self, name: &str, f: impl FnOnce() -> T) -> Option<T> {
        let r = guard(f);
        match &r {
            Some(x) => self.toks.push(format!("{}={}", name, x.show().replace(' ', ","))),
            None => self.toks.push(format!("{}=P", name)),
        }
        r
    }
}

// ---------------------------------------------------------------------------------------------
// scalar parsing

pub trait Scalar: Copy + Show + 'static {
    fn parse(s: &str) -> Self;
    const NAME: &'static str;
}
macro_rules! scalar_u {
    ($($t:ty),*) => {$(
        impl Scalar for $t {
            fn parse(s: &str) -> Self { let v: u128 = s.parse().expect("scalar"); v as $t }
            const NAME: &'static str = stringify!($t);
        }
    )*}
}
macro_rules! scalar_i {
    ($($t:ty),*) => {$(
        impl Scalar for $t {
            fn parse(s: &str) -> Self { let v: i128 = s.parse().expect("scalar"); v as $t }
            const NAME: &'static str = stringify!($t);
        }
    )*}
}
scalar_u!(u8, u16, u32, u64, u128, usize);
scalar_i!(i8, i16, i32, i64, i128, isize);

pub fn pnum<T: Scalar>(s: &str) -> T {
    T::parse(s)
}
/// `x<hex>` byte-string token
pub fn pbytes(t: &str) -> Vec<u8> {
    assert!(t.starts_with('x'));
    hex_to_bytes(&t[1..])
}

// ---------------------------------------------------------------------------------------------
// panic message capture (messages are never compared; only used to recognise the step budget)

thread_local! {
    static LAST_PANIC: std::cell::RefCell<String> = std::cell::RefCell::new(String::new());
}
pub fn install_panic_hook() {
    std::panic::set_hook(Box::new(|info| {
        let msg = if let Some(s) = info.payload().downcast_ref::<&str>() {
            s.to_string()
        } else if let Some(s) = info.payload().downcast_ref::<String>() {
            s.clone()
        } else {
            String::from("?")
        };
        LAST_PANIC.with(|l| *l.borrow_mut() = msg);
    }));
}
pub fn last_panic() -> String {
    LAST_PANIC.with(|l| l.borrow().clone())
}
pub fn clear_last_panic() {
    LAST_PANIC.with(|l| l.borrow_mut().clear());
}
