//! Division conventions, modpow / modinv, roots, gcd family, work counter.
use crate::util::*;
use num_bigint::{BigInt, BigUint, Sign};
use num_integer::{Integer, Roots};
use num_traits::{CheckedDiv, CheckedEuclid, CheckedMul, Euclid, Pow};

#[cfg(num_bigint_verif)]
fn set_budget(n: u64) {
    num_bigint::verif_probe::set_budget(n);
}
#[cfg(not(num_bigint_verif))]
fn set_budget(_n: u64) {}

/// optional trailing `b<N>` token = logical step budget for the hooked loops during this command
fn with_budget(t: &[&str], f: impl FnOnce()) {
    let b = t.last().and_then(|s| s.strip_prefix('b')).and_then(|s| s.parse::<u64>().ok());
    if let Some(n) = b {
        set_budget(n);
    }
    clear_last_panic();
    f();
    set_budget(u64::MAX);
}

pub fn budget_hit() -> bool {
    last_panic().contains("step budget exhausted")
}

macro_rules! divall {
    ($out:expr, $a:expr, $b:expr) => {{
        let a = $a;
        let b = $b;
        let out: &mut Out = $out;
        out.named("div", || a / b);
        out.named("rem", || a % b);
        out.named("div_rem", || Integer::div_rem(a, b));
        out.named("div_floor", || Integer::div_floor(a, b));
        out.named("mod_floor", || Integer::mod_floor(a, b));
        out.named("div_mod_floor", || Integer::div_mod_floor(a, b));
        out.named("div_ceil", || Integer::div_ceil(a, b));
        out.named("div_euclid", || Euclid::div_euclid(a, b));
        out.named("rem_euclid", || Euclid::rem_euclid(a, b));
        out.named("div_rem_euclid", || Euclid::div_rem_euclid(a, b));
        out.named("checked_div", || CheckedDiv::checked_div(a, b));
        out.named("checked_div_euclid", || CheckedEuclid::checked_div_euclid(a, b));
        out.named("checked_rem_euclid", || CheckedEuclid::checked_rem_euclid(a, b));
        out.named("checked_div_rem_euclid", || CheckedEuclid::checked_div_rem_euclid(a, b));
    }};
}

pub fn run(op: &str, t: &[&str], v: &[Val], out: &mut Out) -> bool {
    match op {
        "divall" => {
            if v[1].is_u() {
                divall!(out, v[1].u(), v[2].u());
            } else {
                divall!(out, v[1].i(), v[2].i());
                out.named("checked_div_inh", || BigInt::checked_div(v[1].i(), v[2].i()));
            }
        }
        // sdiv <stype> s B : scalar dividend forms  s / B, s % B  (B by value and by reference)
        "modpow" => {
            if v[1].is_u() {
                out.call(|| v[1].u().modpow(v[2].u(), v[3].u()));
            } else {
                out.call(|| v[1].i().modpow(v[2].i(), v[3].i()));
            }
        }
        "modinv" => with_budget(t, || {
            if v[1].is_u() {
                out.call(|| v[1].u().modinv(v[2].u()));
            } else {
                out.call(|| v[1].i().modinv(v[2].i()));
            }
            if budget_hit() {
                out.push("BUDGET");
            }
        }),
        // root A n [b<budget>]
        "root" => with_budget(t, || {
            let n: u32 = pnum(t[2]);
            if v[1].is_u() {
                let a = v[1].u();
                out.named("nth", || a.nth_root(n));
                out.named("tnth", || Roots::nth_root(a, n));
                if n == 2 {
                    out.named("sqrt", || a.sqrt());
                    out.named("tsqrt", || Roots::sqrt(a));
                }
                if n == 3 {
                    out.named("cbrt", || a.cbrt());
                    out.named("tcbrt", || Roots::cbrt(a));
                }
            } else {
                let a = v[1].i();
                out.named("nth", || a.nth_root(n));
                out.named("tnth", || Roots::nth_root(a, n));
                if n == 2 {
                    out.named("sqrt", || a.sqrt());
                    out.named("tsqrt", || Roots::sqrt(a));
                }
                if n == 3 {
                    out.named("cbrt", || a.cbrt());
                    out.named("tcbrt", || Roots::cbrt(a));
                }
            }
            if budget_hit() {
                out.push("BUDGET");
            }
        }),
        // gcd A B [b<budget>]
        "gcd" => with_budget(t, || {
            if v[1].is_u() {
                let (a, b) = (v[1].u(), v[2].u());
                out.named("gcd", || a.gcd(b));
                out.named("lcm", || a.lcm(b));
                out.named("gcd_lcm", || a.gcd_lcm(b));
                out.named("is_multiple_of", || a.is_multiple_of(b));
                #[allow(deprecated)]
                out.named("divides", || a.divides(b));
            } else {
                let (a, b) = (v[1].i(), v[2].i());
                out.named("gcd", || a.gcd(b));
                out.named("lcm", || a.lcm(b));
                out.named("gcd_lcm", || a.gcd_lcm(b));
                out.named("is_multiple_of", || a.is_multiple_of(b));
                #[allow(deprecated)]
                out.named("divides", || a.divides(b));
                out.named("egcd", || {
                    let e = a.extended_gcd(b);
                    (e.gcd, e.x, e.y)
                });
                out.named("egcd_lcm", || {
                    let (e, l) = a.extended_gcd_lcm(b);
                    ((e.gcd, e.x, e.y), l)
                });
            }
            if budget_hit() {
                out.push("BUDGET");
            }
        }),
        "mult" => {
            if v[1].is_u() {
                let (a, b) = (v[1].u(), v[2].u());
                out.named("next", || a.next_multiple_of(b));
                out.named("prev", || a.prev_multiple_of(b));
            } else {
                let (a, b) = (v[1].i(), v[2].i());
                out.named("next", || a.next_multiple_of(b));
                out.named("prev", || a.prev_multiple_of(b));
            }
        }
        "par" => {
            if v[1].is_u() {
                let a = v[1].u();
                out.named("even", || a.is_even());
                out.named("odd", || a.is_odd());
                out.named("inc", || { let mut x = a.clone(); x.inc(); x });
                out.named("dec", || { let mut x = a.clone(); x.dec(); x });
            } else {
                let a = v[1].i();
                out.named("even", || a.is_even());
                out.named("odd", || a.is_odd());
                out.named("inc", || { let mut x = a.clone(); x.inc(); x });
                out.named("dec", || { let mut x = a.clone(); x.dec(); x });
            }
        }
        // work A B : product plus the number of elementary digit multiplications it cost
        "work" => {
            let (a, b) = (v[1].u(), v[2].u());
            #[cfg(num_bigint_verif)]
            let w0 = num_bigint::verif_probe::work();
            let p = guard(|| a * b);
            #[cfg(num_bigint_verif)]
            let w1 = num_bigint::verif_probe::work();
            #[cfg(not(num_bigint_verif))]
            let (w0, w1) = (0u64, 0u64);
            out.push(&format!("n{}", w1 - w0));
            // the product itself can be huge: report a digest (length, low/high digits, xor-fold)
            // and let the monitor compare it with the same digest of the model value
            match p {
                Some(p) => out.push(&digest_u(&p)),
                None => out.push("P"),
            }
        }
        // worksq A : &a * &a with the SAME object on both sides (squaring), work + digest
        "worksq" => {
            let a = v[1].u();
            #[cfg(num_bigint_verif)]
            let w0 = num_bigint::verif_probe::work();
            let p = guard(|| a * a);
            #[cfg(num_bigint_verif)]
            let w1 = num_bigint::verif_probe::work();
            #[cfg(not(num_bigint_verif))]
            let (w0, w1) = (0u64, 0u64);
            out.push(&format!("n{}", w1 - w0));
            match p {
                Some(p) => out.push(&digest_u(&p)),
                None => out.push("P"),
            }
        }
        // workas A B : `x *= &b` on a receiver whose buffer has plenty of spare capacity, work + digest
        "workas" => {
            let (a, b) = (v[1].u(), v[2].u());
            let mut x = slack_u(a);
            #[cfg(num_bigint_verif)]
            let w0 = num_bigint::verif_probe::work();
            let p = guard(|| { x *= b; x });
            #[cfg(num_bigint_verif)]
            let w1 = num_bigint::verif_probe::work();
            #[cfg(not(num_bigint_verif))]
            let (w0, w1) = (0u64, 0u64);
            out.push(&format!("n{}", w1 - w0));
            match p {
                Some(p) => out.push(&digest_u(&p)),
                None => out.push("P"),
            }
        }
        // workf <form> A B : the same product requested through another public route, work + digest of the magnitude
        "workf" => {
            let (a, b) = (v[2].u(), v[3].u());
            let form = t[1];
            let (ac, bc) = (a.clone(), b.clone());
            let (ai, bi) = (BigInt::from_biguint(Sign::Minus, a.clone()), BigInt::from_biguint(Sign::Plus, b.clone()));
            #[cfg(num_bigint_verif)]
            let w0 = num_bigint::verif_probe::work();
            let p: Option<BigUint> = guard(move || match form {
                "vv" => ac * bc,
                "vr" => ac * &bc,
                "rv" => &ac * bc,
                "chk" => ac.checked_mul(&bc).unwrap(),
                "int" => (&ai * &bi).magnitude().clone(),
                "intas" => { let mut x = ai; x *= bi; x.magnitude().clone() }
                "prod" => [ac, bc].iter().product::<BigUint>(),
                "prodv" => vec![ac, bc].into_iter().product::<BigUint>(),
                "pow2" => Pow::pow(&ac, 2u32),
                "pow2v" => ac.pow(2u32),
                "powb2" => Pow::pow(&ac, &BigUint::from(2u32)),
                "ipow2" => Pow::pow(&ai, 2u8).magnitude().clone(),
                _ => panic!("bad form"),
            });
            #[cfg(num_bigint_verif)]
            let w1 = num_bigint::verif_probe::work();
            #[cfg(not(num_bigint_verif))]
            let (w0, w1) = (0u64, 0u64);
            out.push(&format!("n{}", w1 - w0));
            match p {
                Some(p) => out.push(&digest_u(&p)),
                None => out.push("P"),
            }
        }
        // mulh A B : product reported as digest only (for very large operands)
        "mulh" => {
            let (a, b) = (v[1].u(), v[2].u());
            match guard(|| a * b) {
                Some(p) => out.push(&digest_u(&p)),
                None => out.push("P"),
            }
        }
        _ => return false,
    }
    true
}

/// length + 64-bit polynomial hash of the digit vector (driver-side code only; the monitor
/// computes the same over the model value)
pub fn digest_u(x: &BigUint) -> String {
    let d = raw_u(x);
    let mut h: u64 = 0xcbf29ce484222325;
    for w in &d {
        h ^= *w;
        h = h.wrapping_mul(0x100000001b3);
        h = h.rotate_left(29);
    }
    format!("D{}.{:016x}", d.len(), h)
}
