//! Every overloaded operator form, instantiated by macro (a form that does not exist is a
//! compile error here, so the counts reported by `formcount` are exact).  Each command
//! evaluates the canonical `&A op &B` and every other form on fresh clones, and reports the
//! names of forms whose value *or panic-ness* differs from the canonical one.
use crate::util::*;
use num_bigint::{BigInt, BigUint};
use num_traits::{CheckedAdd, CheckedDiv, CheckedMul, CheckedSub, Pow};
use std::ops::*;

fn repr_u(x: &Option<BigUint>) -> Option<Vec<u64>> {
    x.as_ref().map(raw_u)
}
fn repr_i(x: &Option<BigInt>) -> Option<(i8, Vec<u64>)> {
    x.as_ref().map(raw_i)
}

trait Big: Clone + Show {
    type Raw: PartialEq;
    fn raw(x: &Option<Self>) -> Option<Self::Raw>;
    fn slack(&self) -> Self;
}
impl Big for BigUint {
    type Raw = Vec<u64>;
    fn raw(x: &Option<Self>) -> Option<Self::Raw> {
        repr_u(x)
    }
    fn slack(&self) -> Self {
        slack_u(self)
    }
}
impl Big for BigInt {
    type Raw = (i8, Vec<u64>);
    fn raw(x: &Option<Self>) -> Option<Self::Raw> {
        repr_i(x)
    }
    fn slack(&self) -> Self {
        slack_i(self)
    }
}

fn show_opt<T: Show>(x: &Option<T>) -> String {
    match x {
        Some(v) => v.show(),
        None => "P".into(),
    }
}

/// compare one form against the canonical result
fn chk<T: Big>(out: &mut Out, n: &mut u32, name: &str, canon: &Option<T>, r: Option<T>) {
    *n += 1;
    if T::raw(&r) != T::raw(canon) {
        out.push(&format!("!{}={}", name, show_opt(&r)));
    }
}

macro_rules! bigbig {
    ($out:expr, $n:expr, $a:expr, $b:expr, $Tr:ident :: $m:ident, $TrA:ident :: $ma:ident) => {{
        let a = $a;
        let b = $b;
        let canon = guard(|| $Tr::$m(a, b));
        $out.push(&show_opt(&canon));
        $n += 1;
        chk($out, &mut $n, "vr", &canon, guard(|| $Tr::$m(a.clone(), b)));
        chk($out, &mut $n, "rv", &canon, guard(|| $Tr::$m(a, b.clone())));
        chk($out, &mut $n, "vv", &canon, guard(|| $Tr::$m(a.clone(), b.clone())));
        chk($out, &mut $n, "vv_sa", &canon, guard(|| $Tr::$m(a.slack(), b.clone())));
        chk($out, &mut $n, "vv_sb", &canon, guard(|| $Tr::$m(a.clone(), b.slack())));
        chk($out, &mut $n, "vr_s", &canon, guard(|| $Tr::$m(a.slack(), b)));
        chk($out, &mut $n, "rv_s", &canon, guard(|| $Tr::$m(a, b.slack())));
        chk($out, &mut $n, "as_r", &canon, guard(|| { let mut x = a.clone(); $TrA::$ma(&mut x, b); x }));
        chk($out, &mut $n, "as_v", &canon, guard(|| { let mut x = a.clone(); $TrA::$ma(&mut x, b.clone()); x }));
        chk($out, &mut $n, "as_rs", &canon, guard(|| { let mut x = a.slack(); $TrA::$ma(&mut x, b); x }));
        canon
    }};
}

fn bb_u(op: &str, a: &BigUint, b: &BigUint, out: &mut Out) -> u32 {
    let mut n = 0u32;
    match op {
        "add" => {
            let c = bigbig!(out, n, a, b, Add::add, AddAssign::add_assign);
            let ck = guard(|| a.checked_add(b));
            n += 1;
            out.push(&format!("ck={}", match &ck { Some(Some(v)) => v.show(), Some(None) => "N".into(), None => "P".into() }));
            let _ = c;
        }
        "sub" => {
            bigbig!(out, n, a, b, Sub::sub, SubAssign::sub_assign);
            let ck = guard(|| a.checked_sub(b));
            n += 1;
            out.push(&format!("ck={}", match &ck { Some(Some(v)) => v.show(), Some(None) => "N".into(), None => "P".into() }));
        }
        "mul" => {
            bigbig!(out, n, a, b, Mul::mul, MulAssign::mul_assign);
            let ck = guard(|| a.checked_mul(b));
            n += 1;
            out.push(&format!("ck={}", match &ck { Some(Some(v)) => v.show(), Some(None) => "N".into(), None => "P".into() }));
        }
        "div" => {
            bigbig!(out, n, a, b, Div::div, DivAssign::div_assign);
            let ck = guard(|| a.checked_div(b));
            n += 1;
            out.push(&format!("ck={}", match &ck { Some(Some(v)) => v.show(), Some(None) => "N".into(), None => "P".into() }));
        }
        "rem" => { bigbig!(out, n, a, b, Rem::rem, RemAssign::rem_assign); }
        "and" => { bigbig!(out, n, a, b, BitAnd::bitand, BitAndAssign::bitand_assign); }
        "or" => { bigbig!(out, n, a, b, BitOr::bitor, BitOrAssign::bitor_assign); }
        "xor" => { bigbig!(out, n, a, b, BitXor::bitxor, BitXorAssign::bitxor_assign); }
        _ => out.push("UNKNOWN"),
    }
    n
}

fn bb_i(op: &str, a: &BigInt, b: &BigInt, out: &mut Out) -> u32 {
    let mut n = 0u32;
    macro_rules! ck {
        ($e:expr) => {{
            let ck = guard(|| $e);
            n += 1;
            out.push(&format!("ck={}", match &ck { Some(Some(v)) => v.show(), Some(None) => "N".into(), None => "P".into() }));
        }};
    }
    match op {
        "add" => {
            bigbig!(out, n, a, b, Add::add, AddAssign::add_assign);
            ck!(CheckedAdd::checked_add(a, b));
            ck!(BigInt::checked_add(a, b));
        }
        "sub" => {
            bigbig!(out, n, a, b, Sub::sub, SubAssign::sub_assign);
            ck!(CheckedSub::checked_sub(a, b));
            ck!(BigInt::checked_sub(a, b));
        }
        "mul" => {
            bigbig!(out, n, a, b, Mul::mul, MulAssign::mul_assign);
            ck!(CheckedMul::checked_mul(a, b));
            ck!(BigInt::checked_mul(a, b));
        }
        "div" => {
            bigbig!(out, n, a, b, Div::div, DivAssign::div_assign);
            ck!(CheckedDiv::checked_div(a, b));
            ck!(BigInt::checked_div(a, b));
        }
        "rem" => { bigbig!(out, n, a, b, Rem::rem, RemAssign::rem_assign); }
        "and" => { bigbig!(out, n, a, b, BitAnd::bitand, BitAndAssign::bitand_assign); }
        "or" => { bigbig!(out, n, a, b, BitOr::bitor, BitOrAssign::bitor_assign); }
        "xor" => { bigbig!(out, n, a, b, BitXor::bitxor, BitXorAssign::bitxor_assign); }
        _ => out.push("UNKNOWN"),
    }
    n
}

// scalar forms: canonical fwd = &A op &Big::from(s), rev = &Big::from(s) op &A
macro_rules! scalar_forms {
    ($out:expr, $n:expr, $Big:ty, $S:ty, $a:expr, $s:expr, $Tr:ident :: $m:ident, $TrA:ident :: $ma:ident) => {{
        let a: &$Big = $a;
        let s: $S = $s;
        let sb = <$Big>::from(s);
        let fwd = guard(|| $Tr::$m(a, &sb));
        let rev = guard(|| $Tr::$m(&sb, a));
        $out.push(&format!("fwd={}", show_opt(&fwd)));
        $out.push(&format!("rev={}", show_opt(&rev)));
        chk($out, &mut $n, "r_s", &fwd, guard(|| $Tr::$m(a, s)));
        chk($out, &mut $n, "v_s", &fwd, guard(|| $Tr::$m(a.clone(), s)));
        chk($out, &mut $n, "vs_s", &fwd, guard(|| $Tr::$m(a.slack(), s)));
        chk($out, &mut $n, "r_rs", &fwd, guard(|| $Tr::$m(a, &s)));
        chk($out, &mut $n, "v_rs", &fwd, guard(|| $Tr::$m(a.clone(), &s)));
        chk($out, &mut $n, "as_s", &fwd, guard(|| { let mut x = a.clone(); $TrA::$ma(&mut x, s); x }));
        chk($out, &mut $n, "ass_s", &fwd, guard(|| { let mut x = a.slack(); $TrA::$ma(&mut x, s); x }));
        chk($out, &mut $n, "s_r", &rev, guard(|| $Tr::$m(s, a)));
        chk($out, &mut $n, "s_v", &rev, guard(|| $Tr::$m(s, a.clone())));
        chk($out, &mut $n, "s_vs", &rev, guard(|| $Tr::$m(s, a.slack())));
        chk($out, &mut $n, "rs_r", &rev, guard(|| $Tr::$m(&s, a)));
        chk($out, &mut $n, "rs_v", &rev, guard(|| $Tr::$m(&s, a.clone())));
    }};
}

macro_rules! scalar_ops {
    ($out:expr, $n:expr, $op:expr, $Big:ty, $S:ty, $a:expr, $s:expr) => {
        match $op {
            "add" => scalar_forms!($out, $n, $Big, $S, $a, $s, Add::add, AddAssign::add_assign),
            "sub" => scalar_forms!($out, $n, $Big, $S, $a, $s, Sub::sub, SubAssign::sub_assign),
            "mul" => scalar_forms!($out, $n, $Big, $S, $a, $s, Mul::mul, MulAssign::mul_assign),
            "div" => scalar_forms!($out, $n, $Big, $S, $a, $s, Div::div, DivAssign::div_assign),
            "rem" => scalar_forms!($out, $n, $Big, $S, $a, $s, Rem::rem, RemAssign::rem_assign),
            _ => $out.push("UNKNOWN"),
        }
    };
}

macro_rules! by_utype {
    ($name:expr, $T:ident => $body:expr) => {
        match $name {
            "u8" => { type $T = u8; $body }
            "u16" => { type $T = u16; $body }
            "u32" => { type $T = u32; $body }
            "u64" => { type $T = u64; $body }
            "u128" => { type $T = u128; $body }
            "usize" => { type $T = usize; $body }
            _ => panic!("bad unsigned type"),
        }
    };
}
macro_rules! by_itype {
    ($name:expr, $T:ident => $body:expr) => {
        match $name {
            "i8" => { type $T = i8; $body }
            "i16" => { type $T = i16; $body }
            "i32" => { type $T = i32; $body }
            "i64" => { type $T = i64; $body }
            "i128" => { type $T = i128; $body }
            "isize" => { type $T = isize; $body }
            _ => panic!("bad signed type"),
        }
    };
}
fn is_unsigned(n: &str) -> bool {
    n.starts_with('u')
}

// shifts: canonical = &A << s
macro_rules! shift_forms {
    ($out:expr, $n:expr, $Big:ty, $S:ty, $a:expr, $s:expr, $Tr:ident :: $m:ident, $TrA:ident :: $ma:ident) => {{
        let a: &$Big = $a;
        let s: $S = $s;
        let canon = guard(|| $Tr::$m(a, s));
        $out.push(&show_opt(&canon));
        $n += 1;
        chk($out, &mut $n, "v_s", &canon, guard(|| $Tr::$m(a.clone(), s)));
        chk($out, &mut $n, "vs_s", &canon, guard(|| $Tr::$m(a.slack(), s)));
        chk($out, &mut $n, "r_rs", &canon, guard(|| $Tr::$m(a, &s)));
        chk($out, &mut $n, "v_rs", &canon, guard(|| $Tr::$m(a.clone(), &s)));
        chk($out, &mut $n, "as_s", &canon, guard(|| { let mut x = a.clone(); $TrA::$ma(&mut x, s); x }));
        chk($out, &mut $n, "as_rs", &canon, guard(|| { let mut x = a.clone(); $TrA::$ma(&mut x, &s); x }));
        chk($out, &mut $n, "ass_s", &canon, guard(|| { let mut x = a.slack(); $TrA::$ma(&mut x, s); x }));
    }};
}

macro_rules! pow_forms {
    ($out:expr, $n:expr, $Big:ty, $S:ty, $a:expr, $e:expr) => {{
        let a: &$Big = $a;
        let e: $S = $e;
        let canon = guard(|| Pow::pow(a, e));
        $out.push(&show_opt(&canon));
        $n += 1;
        chk($out, &mut $n, "v_e", &canon, guard(|| Pow::pow(a.clone(), e)));
        chk($out, &mut $n, "r_re", &canon, guard(|| Pow::pow(a, &e)));
        chk($out, &mut $n, "v_re", &canon, guard(|| Pow::pow(a.clone(), &e)));
    }};
}

macro_rules! srem_forms {
    ($out:expr, $S:ty, $s:expr, $b:expr) => {{
        let s0: $S = $s;
        let b: &BigUint = $b;
        $out.call(|| { let mut s = s0; s %= b; s });
        $out.call(|| { let mut s = s0; s %= b.clone(); s });
    }};
}

pub fn run(op: &str, t: &[&str], v: &[Val], out: &mut Out) -> bool {
    match op {
        // bb <op> A B
        "bb" => {
            if v[2].is_u() {
                bb_u(t[1], v[2].u(), v[3].u(), out);
            } else {
                bb_i(t[1], v[2].i(), v[3].i(), out);
            }
        }
        // sf <op> <stype> A s
        "sf" => {
            let mut n = 0u32;
            let ty = t[2];
            if v[3].is_u() {
                let a = v[3].u();
                by_utype!(ty, T => { let s: T = pnum(t[4]); scalar_ops!(out, n, t[1], BigUint, T, a, s) });
            } else {
                let a = v[3].i();
                if is_unsigned(ty) {
                    by_utype!(ty, T => { let s: T = pnum(t[4]); scalar_ops!(out, n, t[1], BigInt, T, a, s) });
                } else {
                    by_itype!(ty, T => { let s: T = pnum(t[4]); scalar_ops!(out, n, t[1], BigInt, T, a, s) });
                }
            }
            let _ = n;
        }
        // sh <shl|shr> <stype> A s
        "sh" => {
            let mut n = 0u32;
            let ty = t[2];
            macro_rules! go {
                ($Big:ty, $a:expr, $T:ident) => {{
                    let s: $T = pnum(t[4]);
                    if t[1] == "shl" {
                        shift_forms!(out, n, $Big, $T, $a, s, Shl::shl, ShlAssign::shl_assign)
                    } else {
                        shift_forms!(out, n, $Big, $T, $a, s, Shr::shr, ShrAssign::shr_assign)
                    }
                }};
            }
            if v[3].is_u() {
                let a = v[3].u();
                if is_unsigned(ty) { by_utype!(ty, T => go!(BigUint, a, T)) } else { by_itype!(ty, T => go!(BigUint, a, T)) }
            } else {
                let a = v[3].i();
                if is_unsigned(ty) { by_utype!(ty, T => go!(BigInt, a, T)) } else { by_itype!(ty, T => go!(BigInt, a, T)) }
            }
            let _ = n;
        }
        // pw <etype> A e
        "pw" => {
            let mut n = 0u32;
            let ty = t[1];
            if v[2].is_u() {
                let a = v[2].u();
                by_utype!(ty, T => { let e: T = pnum(t[3]); pow_forms!(out, n, BigUint, T, a, e) });
                if ty == "u32" {
                    let e: u32 = pnum(t[3]);
                    out.named("inh", || a.pow(e));
                }
            } else {
                let a = v[2].i();
                by_utype!(ty, T => { let e: T = pnum(t[3]); pow_forms!(out, n, BigInt, T, a, e) });
                if ty == "u32" {
                    let e: u32 = pnum(t[3]);
                    out.named("inh", || a.pow(e));
                }
            }
            let _ = n;
        }
        // pwb A E   (E: BigUint exponent)
        "pwb" => {
            let mut n = 0u32;
            let e = v[2].u();
            if v[1].is_u() {
                let a = v[1].u();
                let canon = guard(|| Pow::pow(a, e));
                out.push(&show_opt(&canon));
                chk(out, &mut n, "v_re", &canon, guard(|| Pow::pow(a.clone(), e)));
                chk(out, &mut n, "r_e", &canon, guard(|| Pow::pow(a, e.clone())));
                chk(out, &mut n, "v_e", &canon, guard(|| Pow::pow(a.clone(), e.clone())));
            } else {
                let a = v[1].i();
                let canon = guard(|| Pow::pow(a, e));
                out.push(&show_opt(&canon));
                chk(out, &mut n, "v_re", &canon, guard(|| Pow::pow(a.clone(), e)));
                chk(out, &mut n, "r_e", &canon, guard(|| Pow::pow(a, e.clone())));
                chk(out, &mut n, "v_e", &canon, guard(|| Pow::pow(a.clone(), e.clone())));
            }
        }
        // srem <stype> s B      scalar %= BigUint
        "srem" => {
            let ty = t[1];
            let b = v[3].u();
            if is_unsigned(ty) {
                by_utype!(ty, T => srem_forms!(out, T, pnum(t[2]), b));
            } else {
                by_itype!(ty, T => srem_forms!(out, T, pnum(t[2]), b));
            }
        }
        // sp <U|I> A B C ...   Sum / Product over owned and borrowed iterators
        "sp" => {
            if t[1] == "U" {
                let xs: Vec<BigUint> = v[2..].iter().map(|x| x.u().clone()).collect();
                out.call(|| xs.iter().sum::<BigUint>());
                out.call(|| xs.clone().into_iter().sum::<BigUint>());
                out.call(|| xs.iter().product::<BigUint>());
                out.call(|| xs.clone().into_iter().product::<BigUint>());
            } else {
                let xs: Vec<BigInt> = v[2..].iter().map(|x| x.i().clone()).collect();
                out.call(|| xs.iter().sum::<BigInt>());
                out.call(|| xs.clone().into_iter().sum::<BigInt>());
                out.call(|| xs.iter().product::<BigInt>());
                out.call(|| xs.clone().into_iter().product::<BigInt>());
            }
        }
        // sps <U|I> <stype> s1 s2 ...   Sum / Product over scalar iterators
        "sps" => {
            let ty = t[2];
            macro_rules! go {
                ($Big:ty, $T:ident) => {{
                    let xs: Vec<$T> = t[3..].iter().map(|s| pnum::<$T>(s)).collect();
                    out.call(|| xs.iter().copied().sum::<$Big>());
                    out.call(|| xs.iter().sum::<$Big>());
                    out.call(|| xs.iter().copied().product::<$Big>());
                    out.call(|| xs.iter().product::<$Big>());
                }};
            }
            if t[1] == "U" {
                by_utype!(ty, T => go!(BigUint, T));
            } else if is_unsigned(ty) {
                by_utype!(ty, T => go!(BigInt, T));
            } else {
                by_itype!(ty, T => go!(BigInt, T));
            }
        }
        _ => return false,
    }
    true
}
