//! Bit queries (C07), sign / identity helpers (C19), harness modes.
use crate::util::*;
use num_bigint::{BigInt, BigUint, Sign, ToBigInt, ToBigUint};
use num_traits::{ConstZero, One, Signed, Zero};
use std::convert::TryFrom;

fn psign(s: &str) -> Sign {
    match s {
        "-1" | "-" => Sign::Minus,
        "0" => Sign::NoSign,
        _ => Sign::Plus,
    }
}

pub fn run(op: &str, t: &[&str], v: &[Val], out: &mut Out) -> bool {
    match op {
        "slack" => {
            set_slack(t[1] == "1");
            out.push("ok");
        }
        // ---------------------------------------------------------------- C07
        "bit" => {
            let k: u64 = pnum(t[2]);
            if v[1].is_u() {
                out.call(|| v[1].u().bit(k));
            } else {
                out.call(|| v[1].i().bit(k));
            }
        }
        "setbit" => {
            let k: u64 = pnum(t[2]);
            let val = t[3] == "1";
            if v[1].is_u() {
                out.call(|| { let mut x = v[1].u().clone(); x.set_bit(k, val); x });
                out.call(|| { let mut x = slack_u(v[1].u()); x.set_bit(k, val); x });
            } else {
                out.call(|| { let mut x = v[1].i().clone(); x.set_bit(k, val); x });
                out.call(|| { let mut x = slack_i(v[1].i()); x.set_bit(k, val); x });
            }
        }
        "bitq" => {
            if v[1].is_u() {
                let a = v[1].u();
                out.named("bits", || a.bits());
                out.named("tz", || a.trailing_zeros());
                out.named("to1", || a.trailing_ones());
                out.named("cnt1", || a.count_ones());
            } else {
                let a = v[1].i();
                out.named("bits", || a.bits());
                out.named("tz", || a.trailing_zeros());
            }
        }
        "not" => {
            let a = v[1].i();
            out.named("r", || !a);
            out.named("v", || !a.clone());
            out.named("vs", || !slack_i(a));
        }
        // ---------------------------------------------------------------- C19
        "signs" => {
            let a = v[1].i();
            out.named("neg_v", || -a.clone());
            out.named("neg_r", || -a);
            out.named("abs", || a.abs());
            out.named("signum", || a.signum());
            out.named("pos", || a.is_positive());
            out.named("neg", || a.is_negative());
            out.named("sign", || a.sign());
            out.named("mag", || a.magnitude().clone());
            out.named("parts", || a.clone().into_parts());
            out.named("rt", || { let (s, m) = a.clone().into_parts(); BigInt::from_biguint(s, m) });
            out.named("to_biguint", || a.to_biguint());
            out.named("t_to_biguint", || ToBigUint::to_biguint(a));
            out.named("t_to_bigint", || ToBigInt::to_bigint(a));
            out.named("try_r", || Raw(match BigUint::try_from(a) { Ok(x) => x.show(), Err(_) => "E".into() }));
            out.named("try_v", || Raw(match BigUint::try_from(a.clone()) { Ok(x) => x.show(), Err(e) => format!("E{}", e.into_original().show()) }));
            out.named("is_zero", || a.is_zero());
            out.named("is_one", || a.is_one());
            out.named("set_zero", || { let mut x = a.clone(); x.set_zero(); x });
            out.named("set_one", || { let mut x = a.clone(); x.set_one(); x });
            // the same on an object whose buffer is much longer than the value (stale capacity)
            out.named("neg_vs", || -slack_i(a));
            out.named("abs_s", || slack_i(a).abs());
            out.named("parts_s", || slack_i(a).into_parts());
            out.named("set_zero_s", || { let mut x = slack_i(a); x.set_zero(); x });
            out.named("set_one_s", || { let mut x = slack_i(a); x.set_one(); x });
            out.named("is_zero_s", || slack_i(a).is_zero());
            out.named("is_one_s", || slack_i(a).is_one());
        }
        "usigns" => {
            let a = v[1].u();
            out.named("to_bigint", || a.to_bigint());
            out.named("t_to_biguint", || ToBigUint::to_biguint(a));
            out.named("from", || BigInt::from(a.clone()));
            // the same conversions of a value whose buffer is much larger than the value (and, for zero, a zero that still owns a buffer)
            out.named("to_bigint_s", || slack_u(a).to_bigint());
            out.named("from_s", || BigInt::from(slack_u(a)));
            out.named("to_bigint_h", || { let mut x = a.clone(); x += 7u32; x -= 7u32; x.to_bigint() });
            // zeros reached in different ways (some still own a buffer) through the unsigned -> signed gate
            macro_rules! zroute {
                ($name:expr, $z:expr) => {{
                    out.named(concat!("zr_", $name), || { let z: BigUint = $z; z.to_bigint() });
                    out.named(concat!("zf_", $name), || { let z: BigUint = $z; BigInt::from(z) });
                    out.named(concat!("zb_", $name), || { let z: BigUint = $z; BigInt::from_biguint(Sign::Plus, z) });
                }};
            }
            zroute!("sub", a - a);
            zroute!("subv", a.clone() - a.clone());
            zroute!("shr", a.clone() >> (64 * a.iter_u64_digits().len() + 3));
            zroute!("set", { let mut x = a.clone(); x.set_zero(); x });
            zroute!("new", BigUint::new(vec![0, 0, 0]));
            zroute!("slice", { let mut x = a.clone(); x.assign_from_slice(&[0, 0]); x });
            zroute!("mul0", a.clone() * 0u32);
            zroute!("and", { let mut x = a.clone(); x &= BigUint::ZERO; x });
            if !a.is_zero() {
                zroute!("rem", a % a);
                zroute!("remv", a.clone() % a.clone());
            }
            out.named("is_zero", || a.is_zero());
            out.named("is_one", || a.is_one());
            out.named("set_zero", || { let mut x = a.clone(); x.set_zero(); x });
            out.named("set_one", || { let mut x = a.clone(); x.set_one(); x });
            out.named("set_zero_s", || { let mut x = slack_u(a); x.set_zero(); x });
            out.named("set_one_s", || { let mut x = slack_u(a); x.set_one(); x });
            out.named("is_zero_s", || slack_u(a).is_zero());
            out.named("is_one_s", || slack_u(a).is_one());
        }
        "abssub" => {
            let (a, b) = (v[1].i(), v[2].i());
            out.call(|| a.abs_sub(b));
        }
        // frombu <sign> U
        "frombu" => {
            let s = psign(t[1]);
            let u = v[2].u();
            out.named("v", || BigInt::from_biguint(s, u.clone()));
            out.named("parts", || BigInt::from_biguint(s, u.clone()).into_parts());
        }
        "ident" => {
            out.named("u_zero", || <BigUint as Zero>::zero());
            out.named("u_ZERO", || BigUint::ZERO);
            out.named("u_CZERO", || <BigUint as ConstZero>::ZERO);
            out.named("u_default", || BigUint::default());
            out.named("u_one", || <BigUint as One>::one());
            out.named("i_zero", || <BigInt as Zero>::zero());
            out.named("i_ZERO", || BigInt::ZERO);
            out.named("i_CZERO", || <BigInt as ConstZero>::ZERO);
            out.named("i_default", || BigInt::default());
            out.named("i_one", || <BigInt as One>::one());
        }
        "signops" => {
            let all = [Sign::Minus, Sign::NoSign, Sign::Plus];
            for s in all {
                out.call(|| -s);
            }
            for a in all {
                for b in all {
                    out.call(|| a * b);
                }
            }
        }
        _ => return false,
    }
    true
}
