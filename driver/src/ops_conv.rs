//! Text / radix (C06), primitive and float conversions (C08), bytes / digits / iterators (C09).
use crate::util::*;
use num_bigint::{BigInt, BigUint, ParseBigIntError, Sign, ToBigInt, ToBigUint};
use num_traits::{FromBytes, FromPrimitive, Num, ToBytes, ToPrimitive};
use std::convert::TryFrom;
use std::str::FromStr;

fn err_kind(e: &ParseBigIntError) -> String {
    let s = format!("{}", e);
    if s.contains("empty") {
        "Ee".into()
    } else if s.contains("invalid") {
        "Ei".into()
    } else {
        format!("E?{}", bytes_to_hex(s.as_bytes()))
    }
}
struct PR<T>(Result<T, ParseBigIntError>);
impl<T: Show> Show for PR<T> {
    fn show(&self) -> String {
        match &self.0 {
            Ok(v) => v.show(),
            Err(e) => err_kind(e),
        }
    }
}

fn sign_of(tok: &str) -> Sign {
    match tok {
        "I-" => Sign::Minus,
        "I0" => Sign::NoSign,
        _ => Sign::Plus,
    }
}

fn pwords(t: &str) -> Vec<u32> {
    assert!(t.starts_with('w'));
    if t.len() == 1 {
        return vec![];
    }
    t[1..].split(',').map(|x| u32::from_str_radix(x, 16).unwrap()).collect()
}

macro_rules! fmt_bank {
    ($x:expr, $id:expr, $w:expr) => {{
        let x = $x;
        let w: usize = $w;
        match $id {
            0 => format!("{}", x),
            1 => format!("{:+}", x),
            2 => format!("{:#x}", x),
            3 => format!("{:#X}", x),
            4 => format!("{:x}", x),
            5 => format!("{:X}", x),
            6 => format!("{:b}", x),
            7 => format!("{:#b}", x),
            8 => format!("{:o}", x),
            9 => format!("{:#o}", x),
            10 => format!("{:1$}", x, w),
            11 => format!("{:<1$}", x, w),
            12 => format!("{:>1$}", x, w),
            13 => format!("{:^1$}", x, w),
            14 => format!("{:01$}", x, w),
            15 => format!("{:+01$}", x, w),
            16 => format!("{:#01$x}", x, w),
            17 => format!("{:+#01$b}", x, w),
            18 => format!("{:*^+#1$o}", x, w),
            19 => format!("{:*<1$}", x, w),
            20 => format!("{:#>1$x}", x, w),
            21 => format!("{:+1$X}", x, w),
            22 => format!("{:0<1$}", x, w),
            23 => format!("{:#01$X}", x, w),
            24 => format!("{:?}", x),
            25 => format!("{:+#1$x}", x, w),
            26 => format!("{:-^1$b}", x, w),
            27 => format!("{:1$.3}", x, w),
            28 => format!("{:#?}", x),
            29 => format!("{:_>+1$o}", x, w),
            30 => format!("{:^+01$}", x, w),
            31 => format!("{:<#01$o}", x, w),
            32 => format!("{:>#1$b}", x, w),
            33 => format!("{:+#X}", x),
            34 => format!("{:#01$b}", x, w),
            35 => format!("{:+x}", x),
            36 => format!("{:@^#1$X}", x, w),
            37 => format!("{:01$o}", x, w),
            38 => format!("{:+1$}", x, w),
            39 => format!("{:<+#1$x}", x, w),
            _ => panic!("bad fmt id"),
        }
    }};
}
pub const FMT_BANK_LEN: u32 = 40;

macro_rules! toprim {
    ($out:expr, $a:expr, $Big:ty, $($ty:ident : $to:ident),*) => {{
        let a = $a;
        $(
            $out.named(stringify!($ty), || a.$to());
            $out.named(concat!("tf_", stringify!($ty)), || Raw(match <$ty>::try_from(a) {
                Ok(v) => v.show(),
                Err(_) => "E".to_string(),
            }));
            $out.named(concat!("tv_", stringify!($ty)), || Raw(match <$ty>::try_from(a.clone()) {
                Ok(v) => v.show(),
                Err(e) => format!("E{}", e.into_original().show()),
            }));
        )*
    }};
}

macro_rules! fromprim_u {
    ($out:expr, $ty:ident, $fp:ident, $s:expr) => {{
        let s: $ty = $s;
        $out.named("u_from", || BigUint::from(s));
        $out.named("u_fp", || <BigUint as FromPrimitive>::$fp(s));
        $out.named("u_to", || s.to_biguint());
        $out.named("i_from", || BigInt::from(s));
        $out.named("i_fp", || <BigInt as FromPrimitive>::$fp(s));
        $out.named("i_to", || s.to_bigint());
    }};
}
macro_rules! fromprim_i {
    ($out:expr, $ty:ident, $fp:ident, $s:expr) => {{
        let s: $ty = $s;
        $out.named("u_try", || Raw(match BigUint::try_from(s) {
            Ok(v) => v.show(),
            Err(_) => "E".to_string(),
        }));
        $out.named("u_fp", || <BigUint as FromPrimitive>::$fp(s));
        $out.named("u_to", || s.to_biguint());
        $out.named("i_from", || BigInt::from(s));
        $out.named("i_fp", || <BigInt as FromPrimitive>::$fp(s));
        $out.named("i_to", || s.to_bigint());
    }};
}

pub fn run(op: &str, t: &[&str], v: &[Val], out: &mut Out) -> bool {
    match op {
        // ---------------------------------------------------------------- C06
        "tostr" => {
            let radix: u32 = pnum(t[2]);
            if v[1].is_u() {
                out.call(|| v[1].u().to_str_radix(radix));
            } else {
                out.call(|| v[1].i().to_str_radix(radix));
            }
        }
        "fmt" => {
            let id: u32 = pnum(t[2]);
            let w: usize = pnum(t[3]);
            if v[1].is_u() {
                let a = v[1].u();
                out.call(|| fmt_bank!(a, id, w));
                if let Some(p) = a.to_u128() {
                    out.named("prim", || fmt_bank!(p, id, w));
                }
            } else {
                let a = v[1].i();
                out.call(|| fmt_bank!(a, id, w));
                if let Some(p) = a.to_i128() {
                    out.named("prim", || fmt_bank!(p, id, w));
                }
            }
        }
        "toradix" => {
            let radix: u32 = pnum(t[2]);
            if v[1].is_u() {
                let a = v[1].u();
                out.named("le", || a.to_radix_le(radix));
                out.named("be", || a.to_radix_be(radix));
            } else {
                let a = v[1].i();
                out.named("le", || a.to_radix_le(radix));
                out.named("be", || a.to_radix_be(radix));
            }
        }
        // fromstr <U|I> radix s<hex>
        "fromstr" => {
            let radix: u32 = pnum(t[2]);
            let bytes = hex_to_bytes(&t[3][1..]);
            let s = String::from_utf8(bytes.clone()).expect("fromstr needs utf8");
            if t[1] == "U" {
                out.named("fsr", || PR(BigUint::from_str_radix(&s, radix)));
                out.named("pb", || BigUint::parse_bytes(&bytes, radix));
                if radix == 10 {
                    out.named("fs", || PR(BigUint::from_str(&s)));
                    out.named("parse", || PR(s.parse::<BigUint>()));
                }
            } else {
                out.named("fsr", || PR(BigInt::from_str_radix(&s, radix)));
                out.named("pb", || BigInt::parse_bytes(&bytes, radix));
                if radix == 10 {
                    out.named("fs", || PR(BigInt::from_str(&s)));
                    out.named("parse", || PR(s.parse::<BigInt>()));
                }
            }
        }
        // parsebytes <U|I> radix x<hex>   (any bytes, possibly not UTF-8)
        "parsebytes" => {
            let radix: u32 = pnum(t[2]);
            let bytes = pbytes(t[3]);
            if t[1] == "U" {
                out.named("pb", || BigUint::parse_bytes(&bytes, radix));
            } else {
                out.named("pb", || BigInt::parse_bytes(&bytes, radix));
            }
        }
        // fromradix <U|I+|I-|I0> radix x<hex>
        "fromradix" => {
            let radix: u32 = pnum(t[2]);
            let bytes = pbytes(t[3]);
            if t[1] == "U" {
                out.named("le", || BigUint::from_radix_le(&bytes, radix));
                out.named("be", || BigUint::from_radix_be(&bytes, radix));
            } else {
                let s = sign_of(t[1]);
                out.named("le", || BigInt::from_radix_le(s, &bytes, radix));
                out.named("be", || BigInt::from_radix_be(s, &bytes, radix));
            }
        }
        // ---------------------------------------------------------------- C08
        "toprim" => {
            if v[1].is_u() {
                toprim!(out, v[1].u(), BigUint, i8: to_i8, u8: to_u8, i16: to_i16, u16: to_u16, i32: to_i32,
                    u32: to_u32, i64: to_i64, u64: to_u64, i128: to_i128, u128: to_u128, isize: to_isize, usize: to_usize);
            } else {
                toprim!(out, v[1].i(), BigInt, i8: to_i8, u8: to_u8, i16: to_i16, u16: to_u16, i32: to_i32,
                    u32: to_u32, i64: to_i64, u64: to_u64, i128: to_i128, u128: to_u128, isize: to_isize, usize: to_usize);
                // the big-to-big TryFrom pair: BigUint from (&)BigInt
                let a = v[1].i();
                out.named("tf_big", || Raw(match BigUint::try_from(a) { Ok(x) => x.show(), Err(_) => "E".into() }));
                out.named("tv_big", || Raw(match BigUint::try_from(a.clone()) { Ok(x) => x.show(), Err(e) => format!("E{}", e.into_original().show()) }));
            }
        }
        "tof" => {
            if v[1].is_u() {
                let a = v[1].u();
                out.named("f32", || a.to_f32());
                out.named("f64", || a.to_f64());
            } else {
                let a = v[1].i();
                out.named("f32", || a.to_f32());
                out.named("f64", || a.to_f64());
            }
        }
        // fromprim <ty> <decimal>
        "fromprim" => match t[1] {
            "u8" => fromprim_u!(out, u8, from_u8, pnum(t[2])),
            "u16" => fromprim_u!(out, u16, from_u16, pnum(t[2])),
            "u32" => fromprim_u!(out, u32, from_u32, pnum(t[2])),
            "u64" => fromprim_u!(out, u64, from_u64, pnum(t[2])),
            "u128" => fromprim_u!(out, u128, from_u128, pnum(t[2])),
            "usize" => fromprim_u!(out, usize, from_usize, pnum(t[2])),
            "i8" => fromprim_i!(out, i8, from_i8, pnum(t[2])),
            "i16" => fromprim_i!(out, i16, from_i16, pnum(t[2])),
            "i32" => fromprim_i!(out, i32, from_i32, pnum(t[2])),
            "i64" => fromprim_i!(out, i64, from_i64, pnum(t[2])),
            "i128" => fromprim_i!(out, i128, from_i128, pnum(t[2])),
            "isize" => fromprim_i!(out, isize, from_isize, pnum(t[2])),
            "bool" => {
                let b = t[2] == "1";
                out.named("u_from", || BigUint::from(b));
                out.named("i_from", || BigInt::from(b));
            }
            _ => out.push("UNKNOWN"),
        },
        // fromf <32|64> <hexbits>
        "fromf" => {
            if t[1] == "32" {
                let f = f32::from_bits(u32::from_str_radix(t[2], 16).unwrap());
                out.named("u_fp", || BigUint::from_f32(f));
                out.named("i_fp", || BigInt::from_f32(f));
                out.named("u_to", || f.to_biguint());
                out.named("i_to", || f.to_bigint());
            } else {
                let f = f64::from_bits(u64::from_str_radix(t[2], 16).unwrap());
                out.named("u_fp", || BigUint::from_f64(f));
                out.named("i_fp", || BigInt::from_f64(f));
                out.named("u_to", || f.to_biguint());
                out.named("i_to", || f.to_bigint());
            }
        }
        // ---------------------------------------------------------------- C09
        "bytes" => {
            if v[1].is_u() {
                let a = v[1].u();
                out.named("le", || a.to_bytes_le());
                out.named("be", || a.to_bytes_be());
                out.named("tle", || ToBytes::to_le_bytes(a));
                out.named("tbe", || ToBytes::to_be_bytes(a));
                // provided method: native-endian = the little- or big-endian form depending on the target
                out.named("tne", || Raw(format!("{}{}", if cfg!(target_endian = "little") { "L" } else { "B" }, ToBytes::to_ne_bytes(a).show())));
                out.named("w32", || a.to_u32_digits());
                out.named("w64", || a.to_u64_digits());
                out.named("i32", || a.iter_u32_digits().collect::<Vec<u32>>());
                out.named("i64", || a.iter_u64_digits().collect::<Vec<u64>>());
                out.named("r32", || a.iter_u32_digits().rev().collect::<Vec<u32>>());
                out.named("r64", || a.iter_u64_digits().rev().collect::<Vec<u64>>());
            } else {
                let a = v[1].i();
                out.named("le", || a.to_bytes_le());
                out.named("be", || a.to_bytes_be());
                out.named("sle", || a.to_signed_bytes_le());
                out.named("sbe", || a.to_signed_bytes_be());
                out.named("tle", || ToBytes::to_le_bytes(a));
                out.named("tbe", || ToBytes::to_be_bytes(a));
                out.named("tne", || Raw(format!("{}{}", if cfg!(target_endian = "little") { "L" } else { "B" }, ToBytes::to_ne_bytes(a).show())));
                out.named("w32", || a.to_u32_digits());
                out.named("w64", || a.to_u64_digits());
                out.named("i32", || a.iter_u32_digits().collect::<Vec<u32>>());
                out.named("i64", || a.iter_u64_digits().collect::<Vec<u64>>());
            }
        }
        // frombytes <U|I+|I-|I0> x<hex>
        "frombytes" => {
            let b = pbytes(t[2]);
            if t[1] == "U" {
                out.named("le", || BigUint::from_bytes_le(&b));
                out.named("be", || BigUint::from_bytes_be(&b));
                out.named("tle", || <BigUint as FromBytes>::from_le_bytes(&b));
                out.named("tbe", || <BigUint as FromBytes>::from_be_bytes(&b));
                out.named("tne_is_le", || <BigUint as FromBytes>::from_ne_bytes(&b) == if cfg!(target_endian = "little") { BigUint::from_bytes_le(&b) } else { BigUint::from_bytes_be(&b) });
            } else {
                let s = sign_of(t[1]);
                out.named("le", || BigInt::from_bytes_le(s, &b));
                out.named("be", || BigInt::from_bytes_be(s, &b));
            }
        }
        "fromsbytes" => {
            let b = pbytes(t[1]);
            out.named("sle", || BigInt::from_signed_bytes_le(&b));
            out.named("sbe", || BigInt::from_signed_bytes_be(&b));
            out.named("tle", || <BigInt as FromBytes>::from_le_bytes(&b));
            out.named("tbe", || <BigInt as FromBytes>::from_be_bytes(&b));
            out.named("tne_is_le", || <BigInt as FromBytes>::from_ne_bytes(&b) == if cfg!(target_endian = "little") { BigInt::from_signed_bytes_le(&b) } else { BigInt::from_signed_bytes_be(&b) });
        }
        // new <U|I+|I-|I0> w<words>
        "new" => {
            let w = pwords(t[2]);
            if t[1] == "U" {
                out.named("new", || BigUint::new(w.clone()));
                out.named("slice", || BigUint::from_slice(&w));
                out.named("assign", || {
                    let mut x = BigUint::from_slice(&[7u32; 40]);
                    x.assign_from_slice(&w);
                    x
                });
                // receivers whose current length is at, just below and just above the length the slice denotes
                for (nm, k) in [("assign_f", w.len() / 2), ("assign_c", (w.len() + 1) / 2), ("assign_p", w.len() / 2 + 1), ("assign_1", 1), ("assign_0", 0)] {
                    out.named(nm, || {
                        let mut x = BigUint::from_slice(&vec![0x9u32; 2 * k]);
                        x.assign_from_slice(&w);
                        x
                    });
                }
            } else {
                let s = sign_of(t[1]);
                out.named("new", || BigInt::new(s, w.clone()));
                out.named("slice", || BigInt::from_slice(s, &w));
                out.named("assign", || {
                    let mut x = BigInt::from_slice(Sign::Minus, &[7u32; 40]);
                    x.assign_from_slice(s, &w);
                    x
                });
                for (nm, k) in [("assign_f", w.len() / 2), ("assign_c", (w.len() + 1) / 2), ("assign_p", w.len() / 2 + 1), ("assign_1", 1), ("assign_0", 0)] {
                    out.named(nm, || {
                        let mut x = BigInt::from_slice(Sign::Minus, &vec![0x9u32; 2 * k]);
                        x.assign_from_slice(s, &w);
                        x
                    });
                }
            }
        }
        // iter <32|64> A op op ...     ops: n b t<k> l h L c
        "iter" => {
            macro_rules! drive {
                ($it:expr) => {{
                    let mut it = Some($it);
                    for o in &t[3..] {
                        let o: &str = o;
                        if it.is_none() {
                            out.push("X");
                            continue;
                        }
                        match o.as_bytes()[0] {
                            b'n' => { out.call(|| it.as_mut().unwrap().next()); }
                            b'b' => { out.call(|| it.as_mut().unwrap().next_back()); }
                            b't' => {
                                let k: usize = o[1..].parse().unwrap();
                                out.call(|| it.as_mut().unwrap().nth(k));
                            }
                            b'l' => { out.call(|| it.as_ref().unwrap().len()); }
                            b'h' => {
                                out.call(|| {
                                    let (lo, hi) = it.as_ref().unwrap().size_hint();
                                    Raw(format!("h{},{}", lo, hi.map(|x| x as i128).unwrap_or(-1)))
                                });
                            }
                            b'L' => {
                                let i2 = it.take().unwrap();
                                out.call(|| i2.last());
                            }
                            b'c' => {
                                let i2 = it.take().unwrap();
                                out.call(|| i2.count());
                            }
                            // internal-iteration consumers (an iterator may override fold / rfold / nth_back ...)
                            b'k' => {
                                let k: usize = o[1..].parse().unwrap();
                                out.call(|| it.as_mut().unwrap().nth_back(k));
                            }
                            b'F' => {
                                let i2 = it.take().unwrap();
                                out.call(|| i2.fold(Vec::<u64>::new(), |mut v, x| { v.push(x as u64); v }));
                            }
                            b'R' => {
                                let i2 = it.take().unwrap();
                                out.call(|| i2.rfold(Vec::<u64>::new(), |mut v, x| { v.push(x as u64); v }));
                            }
                            b'C' => {
                                let i2 = it.take().unwrap();
                                out.call(|| i2.map(|x| x as u64).collect::<Vec<u64>>());
                            }
                            b'V' => {
                                let i2 = it.take().unwrap();
                                out.call(|| i2.rev().map(|x| x as u64).collect::<Vec<u64>>());
                            }
                            b'S' => {
                                let i2 = it.take().unwrap();
                                out.call(|| i2.map(|x| x as u128).sum::<u128>());
                            }
                            b'M' => {
                                let i2 = it.take().unwrap();
                                out.call(|| i2.map(|x| x as u64).max());
                            }
                            b'm' => {
                                let i2 = it.take().unwrap();
                                out.call(|| i2.min().map(|x| x as u64));
                            }
                            b'A' => {
                                let mut i2 = it.take().unwrap();
                                out.call(|| { let r = (&mut i2).all(|_| true); vec![r as u64, i2.len() as u64] });
                            }
                            b'P' => {
                                let mut i2 = it.take().unwrap();
                                out.call(|| { let r = i2.position(|x| x % 2 == 1); vec![r.map(|p| p as u64 + 1).unwrap_or(0), i2.len() as u64] });
                            }
                            b'p' => {
                                let mut i2 = it.take().unwrap();
                                out.call(|| { let r = i2.rposition(|x| x % 2 == 1); vec![r.map(|p| p as u64 + 1).unwrap_or(0), i2.len() as u64] });
                            }
                            b'Y' => {
                                let mut i2 = it.take().unwrap();
                                out.call(|| { let r = i2.rfind(|x| x % 2 == 1); vec![r.map(|v| v as u64).unwrap_or(u64::MAX), r.is_some() as u64, i2.len() as u64] });
                            }
                            b'Q' => {
                                let i2 = it.take().unwrap();
                                out.call(|| i2.step_by(2).map(|x| x as u64).collect::<Vec<u64>>());
                            }
                            b'Z' => {
                                let mut i2 = it.take().unwrap();
                                out.call(|| { let mut v: Vec<u64> = (&mut i2).take(2).map(|x| x as u64).collect(); v.push(i2.len() as u64); v });
                            }
                            b'E' => {
                                // for_each through a by-ref adaptor, then what is left
                                let mut i2 = it.take().unwrap();
                                out.call(|| { let mut v = Vec::<u64>::new(); (&mut i2).for_each(|x| v.push(x as u64)); v.push(i2.len() as u64); v });
                            }
                            _ => out.push("UNKNOWN"),
                        }
                    }
                }};
            }
            let mag: BigUint;
            let a: &BigUint = if v[2].is_u() {
                v[2].u()
            } else {
                mag = v[2].i().magnitude().clone();
                &mag
            };
            if v[2].is_i() {
                // iterate through the BigInt accessor
                let ai = v[2].i();
                if t[1] == "32" { drive!(ai.iter_u32_digits()) } else { drive!(ai.iter_u64_digits()) }
            } else if t[1] == "32" {
                drive!(a.iter_u32_digits())
            } else {
                drive!(a.iter_u64_digits())
            }
        }
        _ => return false,
    }
    true
}
